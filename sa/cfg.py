"""Statement-level control-flow graphs, dominating facts and path analyses
(DESIGN.md 2.3).  Pure syntax: nothing of the analysed code is executed."""
from __future__ import annotations

import ast
from collections import defaultdict, deque

from .model import access_path, unparse

CATCH_ALL = {"Exception", "BaseException"}


class Node:
    __slots__ = ("id", "kind", "ast", "succs", "preds", "in_try")

    def __init__(self, id, kind, node=None):
        self.id = id
        self.kind = kind  # entry exit xexit stmt test for handler
        self.ast = node
        self.succs = []  # (target id, label)
        self.preds = []
        self.in_try = False

    def __repr__(self):
        t = unparse(self.ast)[:50] if self.ast is not None and self.kind != "handler" else ""
        return f"<{self.id}:{self.kind} {t}>"


def _contains(node, types):
    for n in ast.walk(node):
        if isinstance(n, types):
            return True
    return False


class CFG:
    def __init__(self, fnode):
        self.fnode = fnode
        self.nodes: list[Node] = []
        self.entry = self._new("entry")
        self.exit = self._new("exit")
        self.xexit = self._new("xexit")
        self._loops = []  # (continue target id, break frontier list)
        self._tries = []  # list of dict(handlers=[ids], catch_all=bool)
        self.ast2node = {}
        self._store_counts = {}
        for x in ast.walk(fnode):
            if isinstance(x, ast.Name) and isinstance(x.ctx, (ast.Store, ast.Del)):
                self._store_counts[x.id] = self._store_counts.get(x.id, 0) + 1
        out = self._seq(fnode.body, [(self.entry.id, None)])
        self._connect(out, self.exit.id)
        for n in self.nodes:
            for t, lab in n.succs:
                self.nodes[t].preds.append((n.id, lab))

    # ------------------------------------------------------------ construction
    def _new(self, kind, node=None):
        n = Node(len(self.nodes), kind, node)
        n.in_try = bool(getattr(self, "_tries", None))
        self.nodes.append(n)
        if node is not None and kind in ("stmt", "test", "for", "handler"):
            self.ast2node[id(node)] = n
        return n

    def _connect(self, frontier, target):
        for nid, lab in frontier:
            self.nodes[nid].succs.append((target, lab))

    def _raise_edges(self, n: Node, force=False):
        """Exceptional successors of node n under the current try stack."""
        if not force and not self._tries:
            if not _contains(n.ast, (ast.Call, ast.Raise, ast.Subscript, ast.Assert)):
                return
        for t in reversed(self._tries):
            for hid, htype in t["handlers"]:
                n.succs.append((hid, ("exc", htype)))
            if t["catch_all"]:
                return
        n.succs.append((self.xexit.id, ("exc", None)))

    def _stmt_node(self, st, preds, kind="stmt"):
        n = self._new(kind, st)
        self._connect(preds, n.id)
        self._raise_edges(n)
        return n

    def _cond(self, e, preds):
        """Decompose a test expression; returns (true frontier, false frontier)."""
        if isinstance(e, ast.BoolOp):
            if isinstance(e.op, ast.And):
                t, fall = preds, []
                for v in e.values:
                    t, f = self._cond(v, t)
                    fall += f
                return t, fall
            else:
                f, tall = preds, []
                for v in e.values:
                    t, f = self._cond(v, f)
                    tall += t
                return tall, f
        if isinstance(e, ast.UnaryOp) and isinstance(e.op, ast.Not):
            t, f = self._cond(e.operand, preds)
            return f, t
        n = self._new("test", e)
        self._connect(preds, n.id)
        self._raise_edges(n)
        if isinstance(e, ast.Constant):
            if e.value:
                return [(n.id, ("T", e))], []
            return [], [(n.id, ("F", e))]
        return [(n.id, ("T", e))], [(n.id, ("F", e))]

    def _cond_full(self, e, preds):
        """_cond plus, for compound tests, a join node per outcome that carries
        the truth of the whole expression (the decomposition alone loses
        `a or b` on the true side and `a and b` on the false side)."""
        t, f = self._cond(e, preds)
        if isinstance(e, (ast.BoolOp, ast.UnaryOp)):
            if t:
                jn = self._new("join", e)
                self._connect(t, jn.id)
                t = [(jn.id, ("T", e))]
            if f:
                jn = self._new("join", e)
                self._connect(f, jn.id)
                f = [(jn.id, ("F", e))]
        return t, f

    def _seq(self, stmts, preds):
        prev = None
        for st in stmts:
            self._prev = prev
            preds = self._stmt(st, preds)
            prev = st
        return preds

    def _bool_alias_test(self, st):
        """`b = <condition>` immediately followed by `if ... b ...:` where b is bound
        exactly once in the function: the test is analysed with the condition
        substituted for b (a named condition carries the same facts as an inline one)."""
        prev = getattr(self, "_prev", None)
        if not (isinstance(prev, ast.Assign) and len(prev.targets) == 1 and isinstance(prev.targets[0], ast.Name)):
            return st.test
        name, val = prev.targets[0].id, prev.value
        if not isinstance(val, (ast.Compare, ast.BoolOp)) and not (isinstance(val, ast.UnaryOp) and isinstance(val.op, ast.Not)):
            return st.test
        if any(isinstance(x, (ast.Call, ast.NamedExpr, ast.Await)) for x in ast.walk(val)):
            return st.test
        if self._store_counts.get(name, 0) != 1:
            return st.test
        if not any(isinstance(x, ast.Name) and x.id == name for x in ast.walk(st.test)):
            return st.test
        import copy

        class Sub(ast.NodeTransformer):
            def visit_Name(self, n):
                if n.id == name and isinstance(n.ctx, ast.Load):
                    return ast.copy_location(copy.deepcopy(val), n)
                return n

        return ast.fix_missing_locations(Sub().visit(copy.deepcopy(st.test)))

    def _stmt(self, st, preds):
        if isinstance(st, ast.If):
            t, f = self._cond_full(self._bool_alias_test(st), preds)
            out = self._seq(st.body, t)
            out2 = self._seq(st.orelse, f) if st.orelse else f
            return out + out2
        if isinstance(st, ast.While):
            head = self._new("loophead", st)
            self._connect(preds, head.id)
            t, f = self._cond_full(st.test, [(head.id, None)])
            brk = []
            self._loops.append((head.id, brk))
            body_out = self._seq(st.body, t)
            self._loops.pop()
            self._connect(body_out, head.id)
            out = self._seq(st.orelse, f) if st.orelse else f
            return out + brk
        if isinstance(st, (ast.For, ast.AsyncFor)):
            it = self._new("stmt", st.iter)  # evaluation of the iterable
            self._connect(preds, it.id)
            self._raise_edges(it)
            head = self._new("for", st)
            self._connect([(it.id, None)], head.id)
            brk = []
            self._loops.append((head.id, brk))
            body_out = self._seq(st.body, [(head.id, ("iter", st))])
            self._loops.pop()
            self._connect(body_out, head.id)
            done = [(head.id, ("done", st))]
            out = self._seq(st.orelse, done) if st.orelse else done
            return out + brk
        if isinstance(st, ast.Try):
            handlers = []
            catch_all = False
            for h in st.handlers:
                hn = self._new("handler", h)
                names = self._handler_names(h)
                handlers.append((hn.id, tuple(names)))
                if not names or set(names) & CATCH_ALL:
                    catch_all = True
            self._tries.append({"handlers": handlers, "catch_all": catch_all})
            body_out = self._seq(st.body, preds)
            self._tries.pop()
            outs = self._seq(st.orelse, body_out) if st.orelse else body_out
            for (hid, _), h in zip(handlers, st.handlers):
                self.nodes[hid].in_try = bool(self._tries)
                outs = outs + self._seq(h.body, [(hid, None)])
            if st.finalbody:
                outs = self._seq(st.finalbody, outs)
            return outs
        if isinstance(st, (ast.With, ast.AsyncWith)):
            n = self._stmt_node(st, preds, "stmt")
            # the With node stands for the evaluation of its items only
            return self._seq(st.body, [(n.id, None)])
        if isinstance(st, ast.Return):
            n = self._stmt_node(st, preds)
            self.nodes[n.id].succs.append((self.exit.id, ("return", st)))
            return []
        if isinstance(st, ast.Raise):
            n = self._new("stmt", st)
            self._connect(preds, n.id)
            self._raise_edges(n, force=True)
            return []
        if isinstance(st, ast.Break):
            n = self._stmt_node(st, preds)
            if self._loops:
                self._loops[-1][1].append((n.id, None))
            return []
        if isinstance(st, ast.Continue):
            n = self._stmt_node(st, preds)
            if self._loops:
                n.succs.append((self._loops[-1][0], None))
            return []
        if isinstance(st, ast.Assert):
            t, f = self._cond(st.test, preds)
            for nid, lab in f:
                self.nodes[nid].succs.append((self.xexit.id, lab))
            return t
        if isinstance(st, (ast.FunctionDef, ast.AsyncFunctionDef, ast.ClassDef)):
            return preds  # definitions: no flow
        n = self._stmt_node(st, preds)
        return [(n.id, None)]

    @staticmethod
    def _handler_names(h):
        if h.type is None:
            return []
        ts = h.type.elts if isinstance(h.type, ast.Tuple) else [h.type]
        return [unparse(t).split(".")[-1] for t in ts]

    # ------------------------------------------------------------------ lookup
    def node_of(self, target):
        """CFG node whose AST contains `target` (innermost)."""
        best = None
        for n in self.nodes:
            if n.ast is None or n.kind in ("loophead", "join"):
                continue
            root = n.ast
            if n.kind == "for":
                continue
            if n.kind == "handler":
                if target is n.ast or target is n.ast.type:
                    return n
                continue
            if isinstance(root, (ast.With, ast.AsyncWith)):
                roots = [i.context_expr for i in root.items] + [i.optional_vars for i in root.items if i.optional_vars is not None]
            else:
                roots = [root]
            for r in roots:
                if r is target:
                    return n
                for x in ast.walk(r):
                    if x is target:
                        if best is None:
                            best = n
                        break
        return best

    def reachable_without(self, start_ids, blocked, follow_exc=True):
        """Nodes reachable from start ids when `blocked` node ids are removed."""
        seen = set()
        dq = deque(i for i in start_ids if i not in blocked)
        while dq:
            i = dq.popleft()
            if i in seen:
                continue
            seen.add(i)
            for t, lab in self.nodes[i].succs:
                if not follow_exc and lab and lab[0] == "exc":
                    continue
                if t not in blocked and t not in seen:
                    dq.append(t)
        return seen

    def dominators(self, follow_exc=True):
        """node id -> set of dominator ids (iterative; graphs are small)."""
        ids = list(self.reachable_without([self.entry.id], set(), follow_exc))
        allset = set(ids)
        dom = {i: set(allset) for i in ids}
        dom[self.entry.id] = {self.entry.id}
        changed = True
        order = sorted(ids)
        while changed:
            changed = False
            for i in order:
                if i == self.entry.id:
                    continue
                ps = [p for p, lab in self.nodes[i].preds if p in allset and (follow_exc or not (lab and lab[0] == "exc"))]
                new = None
                for p in ps:
                    new = set(dom[p]) if new is None else new & dom[p]
                new = (new or set()) | {i}
                if new != dom[i]:
                    dom[i] = new
                    changed = True
        return dom


# ------------------------------------------------------------------- facts
def paths_in(e):
    """All access paths (a, a.b, a.b.c prefixes included) read in expression e."""
    out = set()
    for n in ast.walk(e):
        if isinstance(n, (ast.Name, ast.Attribute)):
            p = access_path(n)
            if p:
                out.add(p)
    return out


def _len_arg(e):
    if isinstance(e, ast.Call) and isinstance(e.func, ast.Name) and e.func.id == "len" and len(e.args) == 1:
        return e.args[0]
    return None


def _int(e):
    if isinstance(e, ast.Constant) and isinstance(e.value, int) and not isinstance(e.value, bool):
        return e.value
    if isinstance(e, ast.UnaryOp) and isinstance(e.op, ast.USub) and isinstance(e.operand, ast.Constant) and isinstance(e.operand.value, int):
        return -e.operand.value
    return None


def key_of(e):
    """Stable text key for an expression that facts may be about (access paths,
    calls, subscripts)."""
    return unparse(e)


def derive(e, pol):
    """Atomic facts implied by expression e having truth value `pol`."""
    out = set()
    out.add(("cond", unparse(e), pol))
    if isinstance(e, ast.UnaryOp) and isinstance(e.op, ast.Not):
        return out | derive(e.operand, not pol)
    if isinstance(e, ast.BoolOp):
        if isinstance(e.op, ast.And) and pol:
            for v in e.values:
                out |= derive(v, True)
        elif isinstance(e.op, ast.Or) and not pol:
            for v in e.values:
                out |= derive(v, False)
        return out
    if isinstance(e, (ast.Name, ast.Attribute, ast.Subscript, ast.Call)) and not (
        isinstance(e, ast.Call) and isinstance(e.func, ast.Name) and e.func.id in ("isinstance", "len", "any", "all", "hasattr")
    ):
        k = key_of(e)
        if pol:
            out |= {("truthy", k), ("nonnull", k), ("nonempty", k)}
        else:
            out.add(("falsy", k))
        return out
    if isinstance(e, ast.Call) and isinstance(e.func, ast.Name) and e.func.id == "isinstance" and len(e.args) == 2:
        k = key_of(e.args[0])
        ts = e.args[1].elts if isinstance(e.args[1], ast.Tuple) else [e.args[1]]
        names = tuple(sorted(unparse(t).split(".")[-1] for t in ts))
        out.add(("inst" if pol else "notinst", k, names))
        if pol:
            out.add(("nonnull", k))
        return out
    if isinstance(e, ast.Call) and _len_arg(e) is not None:
        k = key_of(_len_arg(e))
        out.add(("nonempty", k) if pol else ("empty", k))
        return out
    if isinstance(e, ast.Compare) and len(e.ops) == 1:
        op, l, r = e.ops[0], e.left, e.comparators[0]
        rnone = isinstance(r, ast.Constant) and r.value is None
        lnone = isinstance(l, ast.Constant) and l.value is None
        if isinstance(op, (ast.Is, ast.IsNot, ast.Eq, ast.NotEq)) and (rnone or lnone):
            k = key_of(l if rnone else r)
            isnull = isinstance(op, (ast.Is, ast.Eq)) == pol
            out.add(("null", k) if isnull else ("nonnull", k))
            return out
        # len(x) <op> k
        la, ra = _len_arg(l), _len_arg(r)
        if la is not None and _int(r) is not None or ra is not None and _int(l) is not None:
            if la is not None:
                k, c, o = key_of(la), _int(r), op
            else:
                k, c = key_of(ra), _int(l)
                o = {ast.Lt: ast.Gt, ast.Gt: ast.Lt, ast.LtE: ast.GtE, ast.GtE: ast.LtE}.get(type(op), type(op))()
            # normalise to truth of "len > c-ish"
            def nonempty_if():
                if isinstance(o, ast.Gt):
                    return (c >= 0, True)  # len > c  (c>=0) => nonempty when pol
                if isinstance(o, ast.GtE):
                    return (c >= 1, True)
                if isinstance(o, ast.NotEq):
                    return (c == 0, True)
                if isinstance(o, ast.Eq):
                    return (c >= 1, True) if True else None
                return (False, True)
            if isinstance(o, ast.Eq):
                if c == 0:
                    out.add(("empty", k) if pol else ("nonempty", k))
                elif c >= 1 and pol:
                    out.add(("nonempty", k))
                    out.add(("lenge", k, c))
            elif isinstance(o, ast.NotEq):
                if c == 0:
                    out.add(("nonempty", k) if pol else ("empty", k))
            elif isinstance(o, ast.Gt):
                if pol and c >= 0:
                    out.add(("nonempty", k))
                    out.add(("lenge", k, c + 1))
                if not pol and c == 0:
                    out.add(("empty", k))
            elif isinstance(o, ast.GtE):
                if pol and c >= 1:
                    out.add(("nonempty", k))
                    out.add(("lenge", k, c))
                if not pol and c == 1:
                    out.add(("empty", k))
            elif isinstance(o, ast.Lt):
                if not pol and c >= 1:
                    out.add(("nonempty", k))
                    out.add(("lenge", k, c))
                if pol and c == 1:
                    out.add(("empty", k))
            elif isinstance(o, ast.LtE):
                if not pol and c >= 0:
                    out.add(("nonempty", k))
                    out.add(("lenge", k, c + 1))
                if pol and c == 0:
                    out.add(("empty", k))
            return out
        # x == "" / x != ""
        for a, b in ((l, r), (r, l)):
            if isinstance(b, ast.Constant) and b.value in ("", [], ()) and isinstance(op, (ast.Eq, ast.NotEq)):
                isempty = isinstance(op, ast.Eq) == pol
                out.add(("empty", key_of(a)) if isempty else ("nonempty", key_of(a)))
                return out
        if isinstance(op, (ast.Eq, ast.NotEq)):
            iseq = isinstance(op, ast.Eq) == pol
            out.add(("eq" if iseq else "ne", key_of(l), unparse(r)))
            out.add(("eq" if iseq else "ne", key_of(r), unparse(l)))
        if isinstance(op, (ast.In, ast.NotIn)):
            isin = isinstance(op, ast.In) == pol
            out.add(("in" if isin else "notin", key_of(l), unparse(r)))
        # sign tests: x < 0, x >= 0, x > -1
        c = _int(r)
        if c is not None:
            k = key_of(l)
            ge0 = None
            if isinstance(op, ast.Lt) and c == 0:
                ge0 = not pol
            elif isinstance(op, ast.GtE) and c == 0:
                ge0 = pol
            elif isinstance(op, ast.Gt) and c == -1:
                ge0 = pol
            elif isinstance(op, ast.LtE) and c == -1:
                ge0 = not pol
            elif isinstance(op, ast.Gt) and c >= 0 and pol:
                ge0 = True
            elif isinstance(op, ast.Eq) and c == -1:
                ge0 = (not pol) if False else None
            if ge0 is True:
                out.add(("ge0", k))
            elif ge0 is False:
                out.add(("lt0", k))
        return out
    return out


def fact_paths(fact):
    """Access paths a fact depends on (parsed back from its key text)."""
    txts = []
    if fact[0] == "cond":
        txts = [fact[1]]
    elif fact[0] in ("eq", "ne", "in", "notin", "bind"):
        txts = [fact[1], fact[2]]
    else:
        txts = [fact[1]]
    out = set()
    for t in txts:
        try:
            out |= paths_in(ast.parse(t, mode="eval").body)
        except SyntaxError:
            pass
    return out


_FP_CACHE = {}


def fact_paths_cached(fact):
    r = _FP_CACHE.get(fact)
    if r is None:
        r = _FP_CACHE[fact] = frozenset(fact_paths(fact))
    return r


def assigned_paths(node):
    """Access paths (and subscripted bases) written by a simple statement / for target."""
    out = set()

    def tgt(t):
        if isinstance(t, (ast.Tuple, ast.List)):
            for x in t.elts:
                tgt(x)
        elif isinstance(t, ast.Starred):
            tgt(t.value)
        elif isinstance(t, (ast.Name, ast.Attribute)):
            p = access_path(t)
            if p:
                out.add(p)
        elif isinstance(t, ast.Subscript):
            p = access_path(t.value)
            if p:
                out.add(p + "[]")

    if isinstance(node, ast.Assign):
        for t in node.targets:
            tgt(t)
    elif isinstance(node, (ast.AugAssign, ast.AnnAssign)):
        if not (isinstance(node, ast.AnnAssign) and node.value is None):
            tgt(node.target)
    elif isinstance(node, (ast.For, ast.AsyncFor)):
        tgt(node.target)
    elif isinstance(node, ast.Delete):
        for t in node.targets:
            tgt(t)
    elif isinstance(node, (ast.With, ast.AsyncWith)):
        for it in node.items:
            if it.optional_vars is not None:
                tgt(it.optional_vars)
    elif isinstance(node, ast.ExceptHandler):
        if node.name:
            out.add(node.name)
    if isinstance(node, ast.AST):
        for n in ast.walk(node):
            if isinstance(n, ast.NamedExpr):
                tgt(n.target)
            elif isinstance(n, ast.comprehension):
                pass
    return out


MUTATORS = {
    "append", "extend", "insert", "add", "update", "setdefault", "pop", "popleft",
    "remove", "discard", "clear", "sort", "reverse", "extendleft", "appendleft",
}


def definitely_nonnull(e, is_class=lambda name: name[:1].isupper()):
    if isinstance(e, ast.Constant):
        return e.value is not None
    if isinstance(e, (ast.List, ast.Dict, ast.Set, ast.Tuple, ast.ListComp, ast.DictComp, ast.SetComp, ast.JoinedStr, ast.BinOp, ast.Compare, ast.Lambda, ast.GeneratorExp)):
        return True
    if isinstance(e, ast.Call) and isinstance(e.func, ast.Name):
        return is_class(e.func.id) or e.func.id in ("str", "list", "dict", "set", "tuple", "int", "len", "sorted", "bool", "float", "deque", "Counter")
    if isinstance(e, ast.Subscript) and isinstance(e.slice, ast.Slice):
        return True  # slicing yields a sequence (or raises)
    if isinstance(e, ast.Call) and isinstance(e.func, ast.Attribute) and e.func.attr in STR_TOTAL_METHODS:
        return True
    return False


# methods of str that never return None and that no class of the repository defines
STR_TOTAL_METHODS = ("strip", "lstrip", "rstrip", "lower", "upper", "split", "rsplit", "splitlines", "join", "replace", "startswith", "endswith", "expandtabs", "casefold")


def _unconditional_derefs(root):
    """Access paths p such that evaluating `root` certainly evaluates `p.<attr>`
    (not under a short-circuit operand, conditional expression, lambda or
    comprehension)."""
    out = set()

    def rec(e, cond):
        if isinstance(e, (ast.Lambda, ast.ListComp, ast.SetComp, ast.DictComp, ast.GeneratorExp, ast.FunctionDef, ast.ClassDef)):
            return
        if isinstance(e, ast.BoolOp):
            rec(e.values[0], cond)
            for v in e.values[1:]:
                rec(v, True)
            return
        if isinstance(e, ast.IfExp):
            rec(e.test, cond)
            rec(e.body, True)
            rec(e.orelse, True)
            return
        if isinstance(e, ast.Attribute) and isinstance(e.ctx, ast.Load) and not cond:
            p = access_path(e.value)
            if p:
                out.add(p)
        if isinstance(e, (ast.Assign, ast.AugAssign, ast.AnnAssign)):
            # targets: x.f = v dereferences x
            tg = e.targets if isinstance(e, ast.Assign) else [e.target]
            for t in tg:
                if isinstance(t, ast.Attribute) and not cond:
                    p = access_path(t.value)
                    if p:
                        out.add(p)
        for ch in ast.iter_child_nodes(e):
            rec(ch, cond)

    rec(root, False)
    return out


def _last_and_call(a):
    """`p and q and f(..)` with call-free p, q: when the test comes out false either f was not
    called or f returned a false value - the call that may be treated with its falsy summary."""
    if isinstance(a, ast.BoolOp) and isinstance(a.op, ast.And) and isinstance(a.values[-1], ast.Call):
        if not any(isinstance(x, ast.Call) for v in a.values[:-1] for x in ast.walk(v)):
            return a.values[-1]
    return None


class Facts:
    """Forward must-analysis of atomic facts over a CFG.

    call_info(call) -> (assigned attr names, mutated attr names, established facts
    on 'self.<f>' at the callee's normal exits, callee self-path substitution done
    by the caller) -- supplied by sa.effects; None means "external, no effect".
    """

    def __init__(self, cfg: CFG, call_info=None, is_class=None, init=frozenset()):
        self.cfg = cfg
        self.call_info = call_info
        self.is_class = is_class or (lambda name: name[:1].isupper())
        self.IN = {}
        self._solve(init)

    # kill/gen of one node -------------------------------------------------
    def _kills(self, n: Node, falsy=False):
        """(assigned paths, attr names assigned by calls, paths/attrs mutated).
        falsy=True: the node is a test whose value came out false; a call that
        *is* the test then contributes only what it can write on a path that
        returns a false value (call_info's 4th component)."""
        a = n.ast
        apaths = set()
        cattrs = set()
        mutated = set()
        if a is None:
            return apaths, cattrs, mutated
        if n.kind == "join":
            # carries the truth of a compound test; its operands are test nodes of their own and
            # have already contributed what their calls may write
            return apaths, cattrs, mutated
        root = a
        if n.kind == "for":
            apaths |= assigned_paths(a)
            return apaths, cattrs, mutated
        if n.kind == "handler":
            apaths |= assigned_paths(a)
            return apaths, cattrs, mutated
        if isinstance(a, (ast.With, ast.AsyncWith)):
            apaths |= assigned_paths(a)
            walk_roots = [i.context_expr for i in a.items]
        else:
            if isinstance(a, ast.stmt):
                apaths |= assigned_paths(a)
            walk_roots = [a]
        for r in walk_roots:
            for c in ast.walk(r):
                if isinstance(c, ast.NamedExpr):
                    p = access_path(c.target)
                    if p:
                        apaths.add(p)
                if not isinstance(c, ast.Call):
                    continue
                if isinstance(c.func, ast.Attribute) and c.func.attr in MUTATORS:
                    p = access_path(c.func.value)
                    if p:
                        mutated.add(p)
                if self.call_info is not None:
                    info = self.call_info(c)
                    if info:
                        if falsy and (c is a or _last_and_call(a) is c) and len(info) > 3 and info[3] is not None:
                            cattrs |= info[3][0]
                            for at in info[3][1]:
                                mutated.add("*." + at)
                            continue
                        if len(info) > 4 and info[4]:
                            # attrs only ever assigned definitely-non-None values by the callee
                            for at in info[0]:
                                cattrs.add(("nn:" + at) if at in info[4] else at)
                            for at in info[1]:
                                mutated.add("*." + at)
                            continue
                        cattrs |= info[0]
                        for at in info[1]:
                            mutated.add("*." + at)
        return apaths, cattrs, mutated

    @staticmethod
    def _killed(fact, apaths, cattrs, mutated):
        fps = fact_paths_cached(fact)
        for p in fps:
            for ap in apaths:
                base = ap[:-2] if ap.endswith("[]") else ap
                if ap.endswith("[]"):
                    # item store: kills facts about the container's content/elements
                    if p == base or p.startswith(base + "."):
                        if fact[0] in ("nonnull", "null") and fact[1] == base:
                            continue
                        return True
                    continue
                if p == base or p.startswith(base + "."):
                    return True
            if cattrs:
                comps = p.split(".")
                if len(comps) > 1:
                    for i, c in enumerate(comps[1:], 1):
                        if c in cattrs:
                            return True
                        if ("nn:" + c) in cattrs:
                            # re-assigned, but never to None: a non-None fact about
                            # exactly this path survives, everything else dies
                            if fact[0] == "nonnull" and fact[1] == p and i == len(comps) - 1:
                                continue
                            return True
        if mutated and fact[0] in ("nonempty", "empty", "lenge", "truthy", "falsy", "cond", "in", "notin"):
            for p in fps:
                if p in mutated:
                    return True
                comps = p.split(".")
                if len(comps) > 1 and ("*." + comps[-1]) in mutated:
                    return True
        return False

    def _gens(self, n: Node):
        out = set()
        a = n.ast
        if isinstance(a, (ast.Assign, ast.AnnAssign)) and getattr(a, "value", None) is not None:
            tg = a.targets if isinstance(a, ast.Assign) else [a.target]
            for t in tg:
                p = access_path(t) if isinstance(t, (ast.Name, ast.Attribute)) else None
                if not p:
                    continue
                v = a.value
                if definitely_nonnull(v, self.is_class):
                    out.add(("nonnull", p))
                if isinstance(v, ast.Constant) and v.value is None:
                    out.add(("null", p))
                if isinstance(v, (ast.List, ast.Tuple, ast.Set, ast.Dict)) :
                    cnt = len(v.elts) if not isinstance(v, ast.Dict) else len(v.keys)
                    if cnt and not any(isinstance(x, ast.Starred) for x in (v.elts if not isinstance(v, ast.Dict) else [])):
                        out.add(("nonempty", p))
                        out.add(("lenge", p, cnt))
                    elif cnt == 0:
                        out.add(("empty", p))
                if isinstance(v, ast.Constant) and isinstance(v.value, str):
                    out.add(("nonempty", p) if v.value else ("empty", p))
                # alias: x = y  /  x = y.f  -> facts of the source carry over is
                # handled in transfer (copy), here bind record:
                out.add(("bind", p, unparse(v)))
        if isinstance(a, ast.Expr) and isinstance(a.value, ast.Call) and isinstance(a.value.func, ast.Attribute) and a.value.func.attr in ("append", "add", "insert", "appendleft") and a.value.args:
            p = access_path(a.value.func.value)
            if p:
                out.add(("nonempty", p))
        if a is not None and n.kind in ("stmt", "test"):
            # a dereference that did not raise proves its base non-None
            droots = [a] if not isinstance(a, (ast.With, ast.AsyncWith)) else [i.context_expr for i in a.items]
            for r in droots:
                for x in _unconditional_derefs(r):
                    out.add(("nonnull", x))
        if self.call_info is not None and a is not None and n.kind in ("stmt", "test"):
            roots = [a] if not isinstance(a, (ast.With, ast.AsyncWith)) else [i.context_expr for i in a.items]
            for r in roots:
                for c in ast.walk(r):
                    if isinstance(c, ast.Call):
                        info = self.call_info(c)
                        if info and info[2]:
                            out |= info[2]
        return out

    @staticmethod
    def _gen_about_target(n, fact):
        """Is this generated fact a statement about the assigned target's new value?"""
        a = n.ast
        if isinstance(a, (ast.Assign, ast.AnnAssign)):
            tg = a.targets if isinstance(a, ast.Assign) else [a.target]
            return any(access_path(t) == fact[1] for t in tg if isinstance(t, (ast.Name, ast.Attribute)))
        return False

    def transfer(self, n: Node, facts: frozenset, exceptional=False, falsy=False):
        apaths, cattrs, mutated = self._kills(n, falsy)
        if apaths or cattrs or mutated:
            facts = frozenset(f for f in facts if not self._killed(f, apaths, cattrs, mutated))
        if exceptional:
            return facts
        g = self._gens(n)
        if g and apaths:
            # facts generated about a path the statement itself re-binds are stale
            g = {f for f in g if f[0] == "bind" or not self._killed(f, apaths, set(), set()) or f[0] in ("null", "empty") or (f[0] in ("nonnull", "nonempty", "lenge") and self._gen_about_target(n, f))}
        if g:
            # copy facts through simple aliases: x = y
            a = n.ast
            extra = set()
            if isinstance(a, ast.Assign) and len(a.targets) == 1 and isinstance(a.value, (ast.Name, ast.Attribute)):
                src = access_path(a.value)
                dst = access_path(a.targets[0]) if isinstance(a.targets[0], (ast.Name, ast.Attribute)) else None
                if src and dst:
                    for f in facts:
                        if f[0] in ("nonnull", "null", "nonempty", "empty", "truthy", "falsy", "inst", "notinst") and f[1] == src:
                            extra.add((f[0], dst) + tuple(f[2:]))
            facts = frozenset(set(facts) | g | extra)
        return facts

    def _solve(self, init):
        cfg = self.cfg
        IN = {cfg.entry.id: frozenset(init)}
        wl = deque([cfg.entry.id])
        inq = {cfg.entry.id}
        while wl:
            i = wl.popleft()
            inq.discard(i)
            n = cfg.nodes[i]
            base = IN[i]
            out_norm = None
            out_exc = None
            for t, lab in n.succs:
                if lab and lab[0] in ("T", "F") and n.kind == "test":
                    p = access_path(n.ast) if isinstance(n.ast, (ast.Name, ast.Attribute)) else None
                    if p is not None:
                        if lab[0] == "F" and ("truthy", p) in base:
                            continue
                        if lab[0] == "T" and ("falsy", p) in base:
                            continue
                    if isinstance(n.ast, ast.Compare) and len(n.ast.ops) == 1 and isinstance(n.ast.ops[0], (ast.Is, ast.IsNot)) and isinstance(n.ast.comparators[0], ast.Constant) and n.ast.comparators[0].value is None:
                        p = key_of(n.ast.left)
                        isnone_edge = (lab[0] == "T") == isinstance(n.ast.ops[0], ast.Is)
                        if isnone_edge and ("nonnull", p) in base:
                            continue
                        if not isnone_edge and ("null", p) in base:
                            continue
                if lab and lab[0] == "exc":
                    if out_exc is None:
                        out_exc = self.transfer(n, base, exceptional=True)
                    o = out_exc
                else:
                    if lab and lab[0] == "F" and n.kind == "test" and (isinstance(n.ast, ast.Call) or _last_and_call(n.ast) is not None) and self.call_info is not None:
                        o = self.transfer(n, base, falsy=True)
                    else:
                        if out_norm is None:
                            out_norm = self.transfer(n, base)
                        o = out_norm
                    if lab and lab[0] in ("T", "F"):
                        o = frozenset(o | derive(lab[1], lab[0] == "T"))
                    elif lab and lab[0] == "done":
                        pass
                new = o if t not in IN else IN[t] & o
                if t not in IN or new != IN[t]:
                    IN[t] = new
                    if t not in inq:
                        wl.append(t)
                        inq.add(t)
        self.IN = IN

    # query ------------------------------------------------------------------
    def at(self, target, parent_map=None):
        """Facts holding whenever evaluation reaches AST node `target`:
        dataflow facts at the CFG node + facts from enclosing short-circuit /
        conditional-expression / comprehension conditions inside the statement."""
        n = self.cfg.node_of(target)
        if n is None or n.id not in self.IN:
            return None  # unreachable or not in this function
        facts = set(self.IN[n.id])
        if n.kind == "handler":
            return facts
        # intra-expression refinement
        facts |= local_facts(n.ast, target)
        return facts


def local_facts(root, target):
    """Facts from BoolOp operands to the left, IfExp tests and comprehension
    conditions that guard `target` inside expression/statement `root`."""
    out = set()
    path = _path_to(root, target)
    if not path:
        return out
    for parent, child in zip(path, path[1:]):
        if isinstance(parent, ast.BoolOp):
            idx = next((i for i, v in enumerate(parent.values) if v is child), None)
            if idx:
                for v in parent.values[:idx]:
                    out |= derive(v, isinstance(parent.op, ast.And))
        elif isinstance(parent, ast.IfExp):
            if child is parent.body:
                out |= derive(parent.test, True)
            elif child is parent.orelse:
                out |= derive(parent.test, False)
        elif isinstance(parent, (ast.ListComp, ast.SetComp, ast.GeneratorExp, ast.DictComp)):
            gens = parent.generators
            if child not in gens:
                for g in gens:
                    for c in g.ifs:
                        out |= derive(c, True)
        elif isinstance(parent, ast.comprehension):
            if child in parent.ifs:
                i = parent.ifs.index(child)
                for c in parent.ifs[:i]:
                    out |= derive(c, True)
    return out


def _path_to(root, target):
    if root is target:
        return [root]
    for ch in ast.iter_child_nodes(root):
        p = _path_to(ch, target)
        if p:
            return [root] + p
    return None


# ------------------------------------------------------- may-state analysis
def forward_states(cfg: CFG, init, step, max_states=4000):
    """Generic forward analysis over sets of hashable abstract states.
    step(node, state, label) -> iterable of successor states for that edge
    (called once per out-edge).  Returns {node id: set of states at entry}."""
    IN = defaultdict(set)
    IN[cfg.entry.id].add(init)
    wl = deque([(cfg.entry.id, init)])
    total = 0
    while wl:
        i, s = wl.popleft()
        n = cfg.nodes[i]
        for t, lab in n.succs:
            for s2 in step(n, s, lab):
                if s2 not in IN[t]:
                    IN[t].add(s2)
                    total += 1
                    if total > max_states:
                        raise RuntimeError("state explosion")
                    wl.append((t, s2))
    return IN
