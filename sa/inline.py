"""Normalisation pass: inline *new* helper functions into their callers.

Rules are written against the functions of the pinned tree (sa/known_funcs.json
lists their qualified names).  A later, behaviour-preserving "extract helper"
refactoring moves statements a rule looks at into a function the rule has never
heard of.  Before the model is built, every call to a function that is NOT in the
known list — and that is defined in the same module as the caller (a method of
the same class, a nested def of an enclosing function, a module-level function)
— is replaced by the helper's body, parameters bound to the arguments, locals
renamed apart, `return` rewritten into an assignment.  Helpers all of whose uses
could be inlined are removed, so the rules see the program as if the helper had
never been extracted.  Nothing is inlined on the pinned tree itself.

This is a syntactic program transformation on the trees under analysis (nothing
is executed).  Where a call cannot be inlined soundly (recursive helper, return
inside a loop/try/with, *args, generator, call inside a short-circuit operand,
loop test or comprehension) it is left alone and the helper stays in the model.
"""
from __future__ import annotations

import ast
import copy
import json
import os

HERE = os.path.dirname(os.path.abspath(__file__))
MAX_ROUNDS = 8
MAX_BODY = 120  # statements (ast nodes of kind stmt) in a helper


def known_functions():
    with open(os.path.join(HERE, "known_funcs.json")) as fh:
        return set(json.load(fh))


class OrdLine(int):
    """Line number of an inlined statement.  As an int it is the line of the call that
    was replaced (so comparisons between statements of the caller keep meaning "earlier
    in the caller's flow"); `sub` orders the inlined statements among themselves and
    `true` is the line in the helper's own text, used when a location is printed."""

    def __new__(cls, v, sub=(), true=None):
        o = int.__new__(cls, int(v))
        o.sub = tuple(sub)
        o.true = int(true if true is not None else v)
        return o

    @staticmethod
    def _k(x):
        return (int(x), x.sub) if isinstance(x, OrdLine) else (int(x), ())

    def __lt__(self, o):
        return self._k(self) < self._k(o)

    def __le__(self, o):
        return self._k(self) <= self._k(o)

    def __gt__(self, o):
        return self._k(self) > self._k(o)

    def __ge__(self, o):
        return self._k(self) >= self._k(o)

    def __eq__(self, o):
        return isinstance(o, int) and self._k(self) == self._k(o)

    def __ne__(self, o):
        return not self.__eq__(o)

    def __hash__(self):
        return hash(self._k(self))

    def __deepcopy__(self, memo):
        return self

    def __copy__(self):
        return self

    def __reduce__(self):
        return (OrdLine, (int(self), self.sub, self.true))


def true_line(n):
    """line to print for a node (the helper's own line for inlined statements)"""
    ln = getattr(n, "lineno", 0)
    return ln.true if isinstance(ln, OrdLine) else ln


# --------------------------------------------------------------------- tables
class _Def:
    __slots__ = ("qual", "node", "rel", "cls", "holder", "outer_funcs")

    def __init__(self, qual, node, rel, cls, holder, outer_funcs):
        self.qual, self.node, self.rel, self.cls, self.holder, self.outer_funcs = qual, node, rel, cls, holder, outer_funcs


def _collect(tree, rel):
    """all function defs of a module with the model's qualified names"""
    out = []

    def rec(node, prefix, cls, outer):
        for ch in ast.iter_child_nodes(node):
            if isinstance(ch, (ast.FunctionDef, ast.AsyncFunctionDef)):
                d = _Def(f"{rel}:{prefix}{ch.name}", ch, rel, cls if not outer else None, node, tuple(outer))
                out.append(d)
                rec(ch, prefix + ch.name + ".", cls, outer + [d])
            elif isinstance(ch, ast.ClassDef):
                rec(ch, prefix + ch.name + ".", f"{rel}:{prefix}{ch.name}", [])
            else:
                rec(ch, prefix, cls, outer)

    rec(tree, "", None, [])
    return out


def _stmt_count(fn):
    return sum(1 for n in ast.walk(fn) if isinstance(n, ast.stmt)) - 1


def _own_walk(fn):
    """nodes of a function body without nested function/class bodies"""
    stack = list(fn.body)
    while stack:
        n = stack.pop()
        yield n
        if isinstance(n, (ast.FunctionDef, ast.AsyncFunctionDef, ast.ClassDef, ast.Lambda)):
            continue
        stack.extend(ast.iter_child_nodes(n))


def _locals_of(fn):
    names = set()
    a = fn.args
    for x in a.posonlyargs + a.args + a.kwonlyargs:
        names.add(x.arg)
    declared = set()
    for n in _own_walk(fn):
        if isinstance(n, (ast.Global, ast.Nonlocal)):
            declared |= set(n.names)
        elif isinstance(n, ast.Name) and isinstance(n.ctx, (ast.Store, ast.Del)):
            names.add(n.id)
        elif isinstance(n, (ast.FunctionDef, ast.AsyncFunctionDef, ast.ClassDef)):
            names.add(n.name)
        elif isinstance(n, ast.ExceptHandler) and n.name:
            names.add(n.name)
        elif isinstance(n, (ast.Import, ast.ImportFrom)):
            for al in n.names:
                names.add((al.asname or al.name).split(".")[0])
    return names - declared


def _returns(fn):
    return [n for n in _own_walk(fn) if isinstance(n, ast.Return)]


def _body_wo_doc(fn):
    b = list(fn.body)
    if b and isinstance(b[0], ast.Expr) and isinstance(b[0].value, ast.Constant) and isinstance(b[0].value.value, str):
        b = b[1:]
    return b


def _always_exits(stmts):
    if not stmts:
        return False
    s = stmts[-1]
    if isinstance(s, (ast.Return, ast.Raise)):
        return True
    if isinstance(s, ast.If):
        return _always_exits(s.body) and _always_exits(s.orelse)
    return False


def _return_placement_ok(fn):
    """every return sits in the body's if/else skeleton (not in a loop, try, with, match)"""

    def ok(stmts):
        for s in stmts:
            if isinstance(s, ast.Return):
                continue
            if isinstance(s, ast.If):
                if not ok(s.body) or not ok(s.orelse):
                    return False
                continue
            if isinstance(s, (ast.FunctionDef, ast.AsyncFunctionDef, ast.ClassDef)):
                continue
            if any(isinstance(x, ast.Return) for x in ast.walk(s)):
                # a return below a loop / try / with
                inner = [x for x in ast.walk(s) if isinstance(x, ast.Return)]
                nested_defs = [x for x in ast.walk(s) if isinstance(x, (ast.FunctionDef, ast.AsyncFunctionDef, ast.Lambda)) and x is not s]
                in_defs = {id(r) for d in nested_defs for r in ast.walk(d) if isinstance(r, ast.Return)}
                if any(id(r) not in in_defs for r in inner):
                    return False
        return True

    body = _body_wo_doc(fn)
    if ok(body):
        return True
    # returns inside the helper's *last* statement when that is a loop (`while True: ... return x`):
    # they become `ret = x; break` - nothing follows the loop, so leaving it is leaving the helper
    if body and isinstance(body[-1], (ast.While, ast.For)) and not body[-1].orelse and ok(body[:-1]) and not any(isinstance(x, ast.Return) for st in body[:-1] for x in _walk_no_defs(st)):
        return _loop_returns_ok(body[-1])
    return False


def _loop_returns_ok(lp):
    """every return in the loop sits in the loop body's own if/else skeleton (no inner loop, try, with)"""

    def ok(stmts):
        for s in stmts:
            if isinstance(s, ast.Return):
                continue
            if isinstance(s, ast.If):
                if not ok(s.body) or not ok(s.orelse):
                    return False
                continue
            if isinstance(s, (ast.FunctionDef, ast.AsyncFunctionDef, ast.ClassDef)):
                continue
            if any(isinstance(x, ast.Return) for x in _walk_no_defs(s)):
                return False
        return True

    return ok(lp.body)


def _loop_returns_to_breaks(lp, ret_name):
    def conv(stmts):
        out = []
        for s in stmts:
            if isinstance(s, ast.Return):
                val = s.value if s.value is not None else ast.Constant(value=None)
                out.append(ast.copy_location(ast.Assign(targets=[ast.Name(id=ret_name, ctx=ast.Store())], value=val, lineno=s.lineno), s))
                out.append(ast.copy_location(ast.Break(), s))
                return out
            if isinstance(s, ast.If):
                s.body = conv(s.body) or [ast.Pass()]
                s.orelse = conv(s.orelse)
            out.append(s)
        return out

    lp.body = conv(lp.body) or [ast.Pass()]
    return lp


def _import_map(rel, tree):
    """module-level imported names -> (absolute module, symbol)"""
    out = {}
    pkg = rel[:-3].split("/")[:-1]
    for st in tree.body:
        if isinstance(st, ast.ImportFrom):
            base = pkg[: len(pkg) - (st.level - 1)] if st.level else []
            mod = ".".join(base + ([st.module] if st.module else []))
            for a in st.names:
                out[a.asname or a.name] = (mod, a.name)
        elif isinstance(st, ast.Import):
            for a in st.names:
                out[(a.asname or a.name).split(".")[0]] = (a.name if a.asname else a.name.split(".")[0], None)
    return out


def _simple_generator(fn):
    """a generator with exactly one `yield`, a statement that ends the body of its innermost loop
    (possibly the tail of an if-chain there), not under try/with: usable as `for T in gen(..): BODY`"""
    if isinstance(fn, ast.AsyncFunctionDef) or fn.args.vararg or fn.args.kwarg:
        return False
    ys = [n for n in _own_walk(fn) if isinstance(n, (ast.Yield, ast.YieldFrom))]
    if len(ys) != 1 or isinstance(ys[0], ast.YieldFrom) or any(isinstance(n, ast.Return) and n.value is not None for n in _own_walk(fn)):
        return False
    if any(isinstance(n, (ast.Try, ast.With, ast.Global, ast.Nonlocal, ast.Await)) for n in _own_walk(fn)):
        return False
    for dec in fn.decorator_list:
        if not (isinstance(dec, ast.Name) and dec.id in ("staticmethod",)):
            return False

    def tail_yield(stmts):
        if not stmts:
            return False
        last = stmts[-1]
        if isinstance(last, ast.Expr) and last.value is ys[0]:
            return True
        if isinstance(last, ast.If):
            return tail_yield(last.body) or tail_yield(last.orelse)
        return False

    loops = [n for n in _own_walk(fn) if isinstance(n, (ast.For, ast.While)) and any(x is ys[0] for x in ast.walk(n))]
    if not loops:
        return False
    inner = min(loops, key=lambda l: sum(1 for _ in ast.walk(l)))
    if _stmt_count(fn) > MAX_BODY:
        return False
    if tail_yield(inner.body):
        return True
    # `yield x` followed by more statements (typically `break`): usable when the consumer's
    # body can be written without `continue` (see generator_expansion)
    par = {c: p for p in _own_walk(fn) for c in ast.iter_child_nodes(p)}
    st = par.get(ys[0])
    return isinstance(st, ast.Expr) and st.value is ys[0]


def _yield_is_tail(fn):
    ys = [n for n in _own_walk(fn) if isinstance(n, ast.Yield)]

    def tail_yield(stmts):
        if not stmts:
            return False
        last = stmts[-1]
        if isinstance(last, ast.Expr) and last.value is ys[0]:
            return True
        if isinstance(last, ast.If):
            return tail_yield(last.body) or tail_yield(last.orelse)
        return False

    loops = [n for n in _own_walk(fn) if isinstance(n, (ast.For, ast.While)) and any(x is ys[0] for x in ast.walk(n))]
    inner = min(loops, key=lambda l: sum(1 for _ in ast.walk(l)))
    return tail_yield(inner.body)


def _continues_to_ifs(stmts):
    """`if C: ...; continue` followed by REST  ->  `if C: ... else: REST` (top level of a loop body)"""
    out = []
    for i, st in enumerate(stmts):
        if isinstance(st, ast.If) and not st.orelse and st.body and isinstance(st.body[-1], ast.Continue):
            rest = _continues_to_ifs(stmts[i + 1 :])
            new = ast.If(test=st.test, body=st.body[:-1] or [ast.Pass()], orelse=rest)
            out.append(ast.copy_location(new, st))
            return out
        if isinstance(st, ast.Continue):
            return out or [ast.Pass()]
        out.append(st)
    return out


def _eligible(d: _Def):
    fn = d.node
    if isinstance(fn, ast.AsyncFunctionDef):
        return False
    a = fn.args
    if a.vararg:
        return False
    if a.kwarg:
        # `def msg(**fields): return {"v": 1, **fields}`: only as a one-expression helper
        b = _body_wo_doc(fn)
        if not (len(b) == 1 and (isinstance(b[0], ast.Return) and b[0].value is not None or isinstance(b[0], ast.Expr) and isinstance(b[0].value, ast.Call))):
            return False
    for dec in fn.decorator_list:
        if not (isinstance(dec, ast.Name) and dec.id in ("staticmethod", "classmethod")):
            return False
    for n in _own_walk(fn):
        if isinstance(n, (ast.Yield, ast.YieldFrom, ast.Await, ast.Global, ast.Nonlocal)):
            return False
    if _stmt_count(fn) > MAX_BODY:
        return False
    if not _return_placement_ok(fn):
        return False
    # direct recursion
    for n in ast.walk(fn):
        if isinstance(n, ast.Call):
            f = n.func
            if isinstance(f, ast.Name) and f.id == fn.name:
                return False
            if isinstance(f, ast.Attribute) and f.attr == fn.name:
                return False
    return True


# ------------------------------------------------------------------- renaming
class _Rename(ast.NodeTransformer):
    def __init__(self, mapping, exprs):
        self.mapping = mapping  # local name -> new name
        self.exprs = exprs  # param name -> expression (for self := receiver, expression inlining)

    def visit_Name(self, n):
        if n.id in self.exprs and isinstance(n.ctx, ast.Load):
            return copy.deepcopy(self.exprs[n.id])
        if n.id in self.mapping:
            return ast.copy_location(ast.Name(id=self.mapping[n.id], ctx=n.ctx), n)
        return n

    def visit_Call(self, n):
        n = self.generic_visit(n)
        # `f(a, **{"k": v})` (a `**kwargs` parameter replaced by what the caller passed) is `f(a, k=v)`
        kws = []
        for kw in n.keywords:
            if kw.arg is None and isinstance(kw.value, ast.Dict) and all(isinstance(k, ast.Constant) and isinstance(k.value, str) for k in kw.value.keys):
                kws.extend(ast.keyword(arg=k.value, value=v) for k, v in zip(kw.value.keys, kw.value.values))
            else:
                kws.append(kw)
        n.keywords = kws
        return n

    def visit_FunctionDef(self, n):
        if n.name in self.mapping:
            n.name = self.mapping[n.name]
        # parameters of a nested def shadow; keep it simple: do not rename inside when shadowed
        shadow = {x.arg for x in n.args.posonlyargs + n.args.args + n.args.kwonlyargs}
        inner = _Rename({k: v for k, v in self.mapping.items() if k not in shadow}, {k: v for k, v in self.exprs.items() if k not in shadow})
        n.body = [inner.visit(s) for s in n.body]
        n.args.defaults = [self.visit(x) for x in n.args.defaults]
        return n

    def visit_Lambda(self, n):
        shadow = {x.arg for x in n.args.posonlyargs + n.args.args + n.args.kwonlyargs}
        inner = _Rename({k: v for k, v in self.mapping.items() if k not in shadow}, {k: v for k, v in self.exprs.items() if k not in shadow})
        n.body = inner.visit(n.body)
        return n

    def visit_ExceptHandler(self, n):
        if n.name and n.name in self.mapping:
            n.name = self.mapping[n.name]
        return self.generic_visit(n)


def _seq_with_returns(stmts, ret_name):
    """rewrite a statement list whose returns sit in its if/else skeleton into one
    without `return`: `return X` -> `ret = X`, statements after an `if` that may
    return go into the branches that fall through."""
    out = []
    for i, s in enumerate(stmts):
        if isinstance(s, ast.Return):
            val = s.value if s.value is not None else ast.Constant(value=None)
            out.append(ast.copy_location(ast.Assign(targets=[ast.Name(id=ret_name, ctx=ast.Store())], value=val, lineno=s.lineno), s))
            return out, True
        if isinstance(s, ast.If) and any(isinstance(x, ast.Return) for b in (s.body, s.orelse) for y in b for x in _walk_no_defs(y)):
            rest = stmts[i + 1 :]
            body, bexit = _seq_with_returns(s.body + ([] if _always_exits(s.body) else copy.deepcopy(rest)), ret_name)
            orelse, oexit = _seq_with_returns(s.orelse + ([] if _always_exits(s.orelse) else copy.deepcopy(rest)), ret_name)
            new = ast.copy_location(ast.If(test=s.test, body=body or [ast.Pass()], orelse=orelse), s)
            out.append(new)
            return out, True
        out.append(s)
    return out, False


def _walk_no_defs(n):
    stack = [n]
    while stack:
        x = stack.pop()
        yield x
        if isinstance(x, (ast.FunctionDef, ast.AsyncFunctionDef, ast.Lambda, ast.ClassDef)) and x is not n:
            continue
        stack.extend(ast.iter_child_nodes(x))


# ------------------------------------------------------------------ inlining
class _Inliner:
    def __init__(self, mods, known, protected=frozenset()):
        self.mods = mods
        self.known = known
        self.protected = set(protected)
        self.counter = 0
        self.ord = 0
        self.report = []
        self.dropped = []

    # .................................................................. tables
    def build(self):
        self.defs = {}  # rel -> [_Def]
        self.method_names = {}  # name -> [_Def] across the package (methods only)
        for rel, tree in self.mods.items():
            ds = _collect(tree, rel)
            self.defs[rel] = ds
            for d in ds:
                if d.cls:
                    self.method_names.setdefault(d.node.name, []).append(d)
        self.cands = {}
        for rel, ds in self.defs.items():
            for d in ds:
                if d.qual not in self.known and d.qual not in self.protected and (_eligible(d) or _simple_generator(d.node)):
                    self.cands[d.qual] = d
        self.imports = {rel: _import_map(rel, tree) for rel, tree in self.mods.items()}

    def portable(self, d: _Def, to_rel: str):
        """may the helper's body be placed into module `to_rel`?  Every free name it uses is a
        builtin or is bound to the same imported symbol there"""
        if d.rel == to_rel:
            return True
        import builtins

        fn = d.node
        free = {n.id for n in ast.walk(fn) if isinstance(n, ast.Name)} - _locals_of(fn)
        for nm in free:
            if hasattr(builtins, nm):
                continue
            a = self.imports.get(d.rel, {}).get(nm)
            b = self.imports.get(to_rel, {}).get(nm)
            if a is None or a != b:
                return False
        return True

    def resolve(self, caller: _Def, call: ast.Call):
        """(helper def, receiver expr or None) for a call inside `caller`"""
        f = call.func
        rel = caller.rel
        if any(isinstance(a, ast.Starred) for a in call.args) or any(k.arg is None for k in call.keywords):
            return None
        if isinstance(f, ast.Name):
            # nested def of an enclosing function (innermost first), then module level
            chain = list(caller.outer_funcs) + [caller]
            for outer in reversed(chain):
                q = f"{outer.qual}.{f.id}"
                if q in self.cands and self.cands[q].rel == rel:
                    return self.cands[q], None
                if any(d.qual == q for d in self.defs[rel]):
                    return None  # a known nested function of that name shadows
            q = f"{rel}:{f.id}"
            d = self.cands.get(q)
            if d is not None and d.cls is None and not d.outer_funcs:
                return d, None
            return None
        if isinstance(f, ast.Attribute):
            name = f.attr
            defs = self.method_names.get(name, [])
            if len(defs) != 1:
                return None
            d = defs[0]
            if d.qual not in self.cands or not self.portable(d, rel):
                return None
            decs = {x.id for x in d.node.decorator_list if isinstance(x, ast.Name)}
            if "staticmethod" in decs:
                return d, "static"
            if "classmethod" in decs:
                return None
            return d, f.value
        return None

    # ............................................................... one call
    def expansion(self, d: _Def, call: ast.Call, recv, stmt=None):
        """(prelude statements, result expression or None)"""
        fn = d.node
        self.counter += 1
        k = self.counter
        params = [x.arg for x in fn.args.posonlyargs + fn.args.args + fn.args.kwonlyargs]
        pos = list(fn.args.posonlyargs + fn.args.args)
        defaults = dict(zip([x.arg for x in pos[len(pos) - len(fn.args.defaults) :]], fn.args.defaults))
        for x, dv in zip(fn.args.kwonlyargs, fn.args.kw_defaults):
            if dv is not None:
                defaults[x.arg] = dv
        exprs = {}
        binds = []
        plist = [x.arg for x in pos]
        if recv is not None and recv != "static" and plist:
            sp = plist.pop(0)
            if isinstance(recv, ast.Name):
                exprs[sp] = recv
            else:
                binds.append((sp, recv))
        given = {}
        for p, a in zip(plist, call.args):
            given[p] = a
        if len(call.args) > len(plist):
            return None
        extra = []
        for kw in call.keywords:
            if kw.arg in given:
                return None
            if kw.arg not in params:
                if fn.args.kwarg is None:
                    return None
                extra.append(kw)
                continue
            given[kw.arg] = kw.value
        if fn.args.kwarg is not None:
            exprs[fn.args.kwarg.arg] = ast.Dict(keys=[ast.Constant(value=kw.arg) for kw in extra], values=[kw.value for kw in extra])
        for p in plist + [x.arg for x in fn.args.kwonlyargs]:
            if p in given:
                binds.append((p, given[p]))
            elif p in defaults:
                binds.append((p, defaults[p]))
            else:
                return None
        locs = _locals_of(fn)
        mapping = {n: f"{n}__i{k}" for n in locs if n not in exprs}
        # name unification ("un-extract"): `a, b = helper(a, x)` where the helper returns its locals
        # (a, b): the helper's locals become the caller's variables, so facts and stores about them
        # are facts and stores about the caller's variables again
        stored = {n.id for n in _own_walk(fn) if isinstance(n, ast.Name) and isinstance(n.ctx, (ast.Store, ast.Del))}
        free = {n.id for n in ast.walk(fn) if isinstance(n, ast.Name)} - locs
        unify = {}
        if isinstance(stmt, ast.Assign) and len(stmt.targets) == 1 and stmt.value is call:
            tg = stmt.targets[0]
            rv = [r.value for r in _returns(fn) if r.value is not None]
            if isinstance(tg, ast.Name) and rv and all(isinstance(v, ast.Name) and v.id == rv[0].id for v in rv) and rv[0].id in locs:
                unify[rv[0].id] = tg.id
            elif isinstance(tg, ast.Tuple) and all(isinstance(t_, ast.Name) for t_ in tg.elts) and rv and all(isinstance(v, ast.Tuple) and len(v.elts) == len(tg.elts) and all(isinstance(x, ast.Name) for x in v.elts) for v in rv):
                names0 = [x.id for x in rv[0].elts]
                if all([x.id for x in v.elts] == names0 for v in rv) and len(set(names0)) == len(names0) and all(n_ in locs for n_ in names0) and len({t_.id for t_ in tg.elts}) == len(tg.elts):
                    unify = {n_: t_.id for n_, t_ in zip(names0, tg.elts)}
            if any(t_ in free for t_ in unify.values()):
                unify = {}
        kept = []
        for p, a in binds:
            if p in unify:
                if isinstance(a, ast.Name) and a.id == unify[p]:
                    continue  # the caller's variable is the parameter
                unify.pop(p)
            elif p not in stored and isinstance(a, ast.Name) and a.id not in unify.values() and (a.id not in locs or a.id == p):
                exprs[p] = a  # read-only parameter: it is the caller's variable
                mapping.pop(p, None)
                continue
            elif p not in stored and isinstance(a, ast.Constant):
                exprs[p] = a  # read-only parameter bound to a literal
                mapping.pop(p, None)
                continue
            kept.append((p, a))
        # an argument expression that reads a unified caller variable would see the helper's writes too early
        if unify and any(isinstance(x, ast.Name) and x.id in unify.values() for _, a in kept for x in ast.walk(a)):
            unify = {}
            kept = list(binds)
            exprs = {k_: v for k_, v in exprs.items() if k_ not in [p for p, _ in binds]}
            mapping = {n: f"{n}__i{k}" for n in locs if n not in exprs}
        binds = kept
        for l_, t_ in unify.items():
            mapping[l_] = t_
        body = _collapse_pure_locals(copy.deepcopy(_body_wo_doc(fn)), stored)
        # single-expression helper: substitute parameters, no prelude
        if len(body) == 1 and isinstance(body[0], ast.Return) and body[0].value is not None and all(_simple(a) for _, a in binds):
            ex = dict(exprs)
            for p, a in binds:
                ex[p] = a
            e = _flatten_dicts(_Rename({}, ex).visit(body[0].value))
            for x in ast.walk(e):
                if hasattr(x, "lineno") or isinstance(x, ast.expr):
                    x.lineno = call.lineno
                    x.end_lineno = call.lineno
            return [], e
        ren = _Rename(mapping, exprs)
        pre = []
        for p, a in binds:
            pre.append(ast.Assign(targets=[ast.Name(id=mapping.get(p, p), ctx=ast.Store())], value=copy.deepcopy(a), lineno=call.lineno))
        body = [ren.visit(s) for s in body]
        ret = f"ret__i{k}"
        has_value = any(r.value is not None for r in _returns(fn))
        loop_form = bool(body) and isinstance(body[-1], (ast.While, ast.For)) and any(isinstance(x, ast.Return) for x in _walk_no_defs(body[-1]))
        if loop_form:
            body[-1] = _loop_returns_to_breaks(body[-1], ret)
            new_body = body
        else:
            new_body, _ = _seq_with_returns(body, ret)
        if has_value and (loop_form or not _always_exits(_body_wo_doc(fn))):
            # falling off the end returns None
            pre.append(ast.Assign(targets=[ast.Name(id=ret, ctx=ast.Store())], value=ast.Constant(value=None), lineno=call.lineno))
        pre.extend(new_body)
        base = call.lineno
        bsub = base.sub if isinstance(base, OrdLine) else ()
        for s in pre:
            for x in _dfs(s):
                self.ord += 1
                t = getattr(x, "lineno", None)
                if isinstance(x, (ast.stmt, ast.expr, ast.excepthandler, ast.arg)) or t is not None:
                    x.lineno = OrdLine(int(base), bsub + (self.ord,), true_line(x) if t is not None else (base.true if isinstance(base, OrdLine) else base))
                    if getattr(x, "end_lineno", None) is not None:
                        x.end_lineno = x.lineno
        if unify:
            # the helper's result variables are the statement's targets already: `a, b = (a, b)` is dropped
            return pre, "DROP"
        # `x, y = helper()` with `return (a, b)` on every path: assign the targets where the helper
        # returns (element-wise), so each target's definitions stay visible to def-use reasoning
        if isinstance(stmt, ast.Assign) and len(stmt.targets) == 1 and stmt.value is call and isinstance(stmt.targets[0], ast.Tuple) and all(isinstance(t_, ast.Name) for t_ in stmt.targets[0].elts):
            tnames = [t_.id for t_ in stmt.targets[0].elts]
            ret_assigns = [x for s_ in pre for x in ast.walk(s_) if isinstance(x, ast.Assign) and len(x.targets) == 1 and isinstance(x.targets[0], ast.Name) and x.targets[0].id == ret]
            okk = bool(ret_assigns) and all(isinstance(x.value, ast.Tuple) and len(x.value.elts) == len(tnames) for x in ret_assigns)
            if okk:
                reads = {n_.id for x in ret_assigns for n_ in ast.walk(x.value) if isinstance(n_, ast.Name)}
                if not (reads & set(tnames)):
                    class Split(ast.NodeTransformer):
                        def visit_Assign(self, x):
                            if x in ret_assigns:
                                return [ast.copy_location(ast.Assign(targets=[ast.Name(id=tn, ctx=ast.Store())], value=v_, lineno=x.lineno), x) for tn, v_ in zip(tnames, x.value.elts)]
                            return x

                    new_pre = []
                    for s_ in pre:
                        r_ = Split().visit(s_)
                        new_pre.extend(r_ if isinstance(r_, list) else [r_])
                    for s_ in new_pre:
                        ast.fix_missing_locations(s_)
                    return new_pre, "DROP"
        return pre, (ast.Name(id=ret, ctx=ast.Load()) if has_value else ast.Constant(value=None))

    def generator_expansion(self, d: _Def, loop: ast.For, recv):
        """statements replacing `for T in gen(args): BODY`: the generator's body with
        `yield E` turned into `T = E` followed by BODY"""
        fn = d.node
        call = loop.iter
        self.counter += 1
        k = self.counter
        pos = [x.arg for x in fn.args.posonlyargs + fn.args.args]
        if any(isinstance(n, (ast.Break,)) for b in loop.body for n in _walk_no_defs(b) if not _inside_inner_loop(loop, n)):
            # a break in BODY must leave the generator's whole loop nest
            nest = [n for n in _own_walk(fn) if isinstance(n, (ast.For, ast.While))]
            if len(nest) != 1 or _body_wo_doc(fn)[-1] is not nest[0]:
                return None
        loop_body = loop.body
        if not _yield_is_tail(fn):
            # statements follow the yield: `continue` in BODY would skip them after inlining
            loop_body = _continues_to_ifs(copy.deepcopy(loop.body))
            probe = ast.For(target=loop.target, iter=loop.iter, body=loop_body, orelse=[])
            if any(isinstance(n, (ast.Continue, ast.Break)) for b in loop_body for n in _walk_no_defs(b) if not _inside_inner_loop(probe, n)):
                return None
        exprs, binds = {}, []
        plist = list(pos)
        if recv is not None and recv != "static" and plist:
            sp = plist.pop(0)
            if isinstance(recv, ast.Name):
                exprs[sp] = recv
            else:
                binds.append((sp, recv))
        if len(call.args) > len(plist) or call.keywords:
            return None
        defaults = dict(zip(pos[len(pos) - len(fn.args.defaults) :], fn.args.defaults))
        for i, p in enumerate(plist):
            if i < len(call.args):
                binds.append((p, call.args[i]))
            elif p in defaults:
                binds.append((p, defaults[p]))
            else:
                return None
        locs = _locals_of(fn)
        mapping = {n: f"{n}__i{k}" for n in locs if n not in exprs}
        target, user_body = loop.target, loop_body
        # name unification: `for i, line in gen()` with `yield line_no, line` -> the generator's
        # locals are the loop's variables
        yv = next(n for n in _own_walk(fn) if isinstance(n, ast.Yield)).value
        free = {n.id for n in ast.walk(fn) if isinstance(n, ast.Name)} - locs
        unified = False
        tn = [target] if isinstance(target, ast.Name) else list(target.elts) if isinstance(target, ast.Tuple) else []
        yn = [yv] if isinstance(yv, ast.Name) else list(yv.elts) if isinstance(yv, ast.Tuple) else []
        if tn and len(tn) == len(yn) and all(isinstance(x, ast.Name) for x in tn + yn) and len({x.id for x in yn}) == len(yn) and all(x.id in locs and x.id not in exprs and x.id not in [p for p, _ in binds] for x in yn) and not any(x.id in free for x in tn):
            for t_, y_ in zip(tn, yn):
                mapping[y_.id] = t_.id
            unified = True
        # read-only parameters bound to a caller variable or a literal are that variable / literal
        g_stored = {n.id for n in _own_walk(fn) if isinstance(n, ast.Name) and isinstance(n.ctx, (ast.Store, ast.Del))}
        caller_stores = {n.id for b in loop.body for n in ast.walk(b) if isinstance(n, ast.Name) and isinstance(n.ctx, (ast.Store, ast.Del))}
        kept = []
        for p, a in binds:
            if p not in g_stored and (isinstance(a, ast.Constant) or (isinstance(a, ast.Name) and a.id not in caller_stores and (a.id not in locs or a.id == p))):
                exprs[p] = a
                mapping.pop(p, None)
            else:
                kept.append((p, a))
        binds = kept
        ren = _Rename(mapping, exprs)
        pre = [ast.Assign(targets=[ast.Name(id=mapping.get(p, p), ctx=ast.Store())], value=copy.deepcopy(a), lineno=call.lineno) for p, a in binds]
        body = [ren.visit(s) for s in copy.deepcopy(_body_wo_doc(fn))]

        class Y(ast.NodeTransformer):
            def visit_Expr(self, st):
                if isinstance(st.value, ast.Yield):
                    if unified:
                        return list(user_body)
                    val = st.value.value if st.value.value is not None else ast.Constant(value=None)
                    return [ast.copy_location(ast.Assign(targets=[copy.deepcopy(target)], value=val, lineno=st.lineno), st)] + user_body
                return st

            def visit_FunctionDef(self, n):
                return n

        out = pre + [Y().visit(s) for s in body]
        flat = []
        for s in out:
            flat.extend(s if isinstance(s, list) else [s])
        base = loop.lineno
        bsub = base.sub if isinstance(base, OrdLine) else ()
        user_nodes = {id(x) for b in user_body for x in ast.walk(b)}
        for s in flat:
            for x in _dfs(s):
                if id(x) in user_nodes:
                    continue
                self.ord += 1
                t = getattr(x, "lineno", None)
                if isinstance(x, (ast.stmt, ast.expr, ast.excepthandler, ast.arg)) or t is not None:
                    x.lineno = OrdLine(int(base), bsub + (self.ord,), true_line(x) if t is not None else int(base))
                    if getattr(x, "end_lineno", None) is not None:
                        x.end_lineno = x.lineno
        return flat

    # ......................................................... one function
    def process_function(self, caller: _Def):
        changed = False

        def hoistable(stmt, call):
            """the call is evaluated exactly once, before anything else of the statement
            that matters: not under a short-circuit operand, conditional arm, comprehension,
            lambda, nor in a loop test"""
            if isinstance(stmt, ast.Expr):
                roots = [stmt.value]
            elif isinstance(stmt, (ast.Assign, ast.AugAssign, ast.AnnAssign, ast.Return)):
                roots = [stmt.value] if stmt.value is not None else []
            elif isinstance(stmt, ast.If):
                roots = [stmt.test]
            elif isinstance(stmt, ast.For):
                roots = [stmt.iter]
            else:
                return False

            def find(e):
                if e is call:
                    return True
                if isinstance(e, ast.Lambda):
                    return False
                if isinstance(e, (ast.ListComp, ast.SetComp, ast.DictComp, ast.GeneratorExp)):
                    # only the first iterable of a comprehension is evaluated on the spot, once
                    return find(e.generators[0].iter)
                if isinstance(e, ast.BoolOp):
                    return find(e.values[0])
                if isinstance(e, ast.IfExp):
                    return find(e.test)
                return any(find(c) for c in ast.iter_child_nodes(e))

            return any(find(r) for r in roots)

        def replace_in(node, call, new):
            for field, val in ast.iter_fields(node):
                if val is call:
                    setattr(node, field, new)
                    return True
                if isinstance(val, list):
                    for i, x in enumerate(val):
                        if x is call:
                            val[i] = new
                            return True
                        if isinstance(x, ast.AST) and not isinstance(x, ast.stmt) and replace_in(x, call, new):
                            return True
                elif isinstance(val, ast.AST) and not isinstance(val, ast.stmt) and replace_in(val, call, new):
                    return True
            return False

        def do_block(stmts):
            nonlocal changed
            out = []
            for s in stmts:
                if isinstance(s, (ast.FunctionDef, ast.AsyncFunctionDef, ast.ClassDef)):
                    out.append(s)
                    continue
                # `for T in helper_generator(args): BODY`
                if isinstance(s, ast.For) and isinstance(s.iter, ast.Call) and not s.orelse:
                    r = self.resolve(caller, s.iter)
                    if r is not None and _simple_generator(r[0].node) and r[0].node is not caller.node:
                        g_exp = self.generator_expansion(r[0], s, r[1])
                        if g_exp is not None:
                            out.extend(g_exp)
                            self.report.append((r[0].qual, caller.qual, getattr(s, "lineno", 0)))
                            changed = True
                            continue
                # calls in the statement's own expressions (not in nested blocks)
                heads = _head_exprs(s)
                done = False
                for h in heads:
                    for call in [n for n in _walk_expr(h) if isinstance(n, ast.Call)]:
                        r = self.resolve(caller, call)
                        if r is None:
                            continue
                        d, recv = r
                        if d.node is caller.node or not _eligible(d):
                            continue
                        exp = self.expansion(d, call, recv, s)
                        if exp is None:
                            continue
                        pre, res = exp
                        if pre and not hoistable(s, call):
                            continue
                        if isinstance(res, str) and res == "DROP":
                            out.extend(pre)
                        elif isinstance(s, ast.Expr) and s.value is call:
                            out.extend(pre)
                            if not pre:
                                out.append(ast.copy_location(ast.Expr(value=res), s))
                        else:
                            replace_in(s, call, res)
                            out.extend(pre)
                            out.append(s)
                        self.report.append((d.qual, caller.qual, getattr(call, "lineno", 0)))
                        changed = True
                        done = True
                        break
                    if done:
                        break
                if done:
                    # the statement may contain further helper calls: next round
                    continue
                for field in ("body", "orelse", "finalbody"):
                    b = getattr(s, field, None)
                    if isinstance(b, list) and b and isinstance(b[0], ast.stmt):
                        setattr(s, field, do_block(b))
                if isinstance(s, ast.Try):
                    for h in s.handlers:
                        h.body = do_block(h.body)
                if hasattr(ast, "Match") and isinstance(s, ast.Match):
                    for c in s.cases:
                        c.body = do_block(c.body)
                out.append(s)
            return out

        caller.node.body = do_block(caller.node.body)
        return changed

    def run(self):
        for _ in range(MAX_ROUNDS):
            self.build()
            if not self.cands:
                break
            any_change = False
            for rel, ds in self.defs.items():
                for d in ds:
                    if self.process_function(d):
                        any_change = True
            if not any_change:
                break
        self.build()
        self.drop_unused()
        for tree in self.mods.values():
            ast.fix_missing_locations(tree)
        return self.report, self.dropped

    def drop_unused(self):
        """remove helpers that are no longer referenced anywhere in their module"""
        for rel, ds in self.defs.items():
            tree = self.mods[rel]
            for d in ds:
                if d.qual in self.known or d.qual not in self.cands:
                    continue
                if not any(c == d.qual for c, _, _ in self.report):
                    continue
                name = d.node.name
                used = False
                for n in ast.walk(tree):
                    if n is d.node:
                        continue
                    if isinstance(n, ast.Name) and n.id == name and isinstance(n.ctx, ast.Load):
                        used = True
                    elif isinstance(n, ast.Attribute) and n.attr == name:
                        used = True
                    elif isinstance(n, ast.Constant) and n.value == name:
                        used = True
                if used:
                    continue
                # other modules referencing the name (imports / attribute access)
                for orel, otree in self.mods.items():
                    if orel == rel:
                        continue
                    for n in ast.walk(otree):
                        if isinstance(n, ast.Attribute) and n.attr == name or isinstance(n, ast.alias) and n.name == name:
                            used = True
                if used:
                    continue
                body = d.holder.body
                if d.node in body:
                    body.remove(d.node)
                    if not body:
                        body.append(ast.Pass())
                    self.dropped.append(d.qual)


def _collapse_pure_locals(body, stored):
    """`v = <pure expr>; ...; return E(v)` -> `return E(<pure expr>)`: a helper made of
    single-assignment locals with call-free values is one expression"""
    if len(body) < 2 or not isinstance(body[-1], ast.Return) or body[-1].value is None:
        return body
    env = {}
    for st in body[:-1]:
        if not (isinstance(st, ast.Assign) and len(st.targets) == 1 and isinstance(st.targets[0], ast.Name)) and not (isinstance(st, ast.AnnAssign) and isinstance(st.target, ast.Name) and st.value is not None):
            return body
        name = st.targets[0].id if isinstance(st, ast.Assign) else st.target.id
        if name in env or any(isinstance(x, (ast.Call, ast.Await, ast.Yield, ast.YieldFrom, ast.NamedExpr, ast.Lambda, ast.ListComp, ast.SetComp, ast.DictComp, ast.GeneratorExp)) for x in ast.walk(st.value)):
            return body
        # single assignment: the name is stored once in the helper, and nothing it reads is stored at all
        n_st = sum(1 for b in body for x in ast.walk(b) if isinstance(x, ast.Name) and x.id == name and isinstance(x.ctx, (ast.Store, ast.Del)))
        if n_st != 1 or any(isinstance(x, ast.Name) and x.id in stored and x.id not in env for x in ast.walk(st.value)):
            return body
        env[name] = _Rename({}, env).visit(copy.deepcopy(st.value))
    ret = copy.deepcopy(body[-1])
    ret.value = _Rename({}, env).visit(ret.value)
    return [ret]


def _flatten_dicts(e):
    """{"a": 1, **{"b": 2}} -> {"a": 1, "b": 2}"""
    for n in ast.walk(e):
        if isinstance(n, ast.Dict) and any(k is None and isinstance(v, ast.Dict) for k, v in zip(n.keys, n.values)):
            ks, vs = [], []
            for k, v in zip(n.keys, n.values):
                if k is None and isinstance(v, ast.Dict):
                    ks += v.keys
                    vs += v.values
                else:
                    ks.append(k)
                    vs.append(v)
            n.keys, n.values = ks, vs
    return e


def _dfs(n):
    yield n
    for c in ast.iter_child_nodes(n):
        yield from _dfs(c)


def _inside_inner_loop(loop, node):
    """is `node` (somewhere in loop.body) inside a loop nested in `loop`?"""
    def rec(n, depth):
        if n is node:
            return depth > 0
        for c in ast.iter_child_nodes(n):
            r = rec(c, depth + (1 if isinstance(c, (ast.For, ast.While)) else 0))
            if r is not None:
                return r
        return None

    for b in loop.body:
        r = rec(b, 1 if isinstance(b, (ast.For, ast.While)) else 0)
        if r is not None:
            return r
    return False


def _simple(e):
    return isinstance(e, (ast.Name, ast.Constant)) or isinstance(e, ast.Attribute) and _simple(e.value)


def _head_exprs(s):
    """expressions evaluated by the statement itself (not its nested blocks)"""
    if isinstance(s, ast.Expr):
        return [s.value]
    if isinstance(s, ast.Assign):
        return [s.value] + list(s.targets)
    if isinstance(s, (ast.AugAssign, ast.AnnAssign)):
        return [x for x in (s.value, s.target) if x is not None]
    if isinstance(s, ast.Return):
        return [s.value] if s.value is not None else []
    if isinstance(s, (ast.If, ast.While)):
        return [s.test]
    if isinstance(s, ast.For):
        return [s.iter]
    if isinstance(s, ast.With):
        return [i.context_expr for i in s.items]
    if isinstance(s, ast.Raise):
        return [x for x in (s.exc, s.cause) if x is not None]
    if isinstance(s, ast.Assert):
        return [s.test]
    if isinstance(s, ast.Delete):
        return list(s.targets)
    return []


def _walk_expr(e):
    stack = [e]
    while stack:
        x = stack.pop()
        yield x
        if isinstance(x, ast.Lambda):
            continue
        stack.extend(ast.iter_child_nodes(x))


# ------------------------------------------------------- new module constants
def known_constants():
    with open(os.path.join(HERE, "known_consts.json")) as fh:
        return set(json.load(fh))


def _const_value(v):
    """literal value of a module-level constant worth propagating, else None"""
    if isinstance(v, ast.Constant) and isinstance(v.value, (str, int, bytes)) and not isinstance(v.value, bool):
        return v
    if isinstance(v, ast.UnaryOp) and isinstance(v.op, ast.USub) and isinstance(v.operand, ast.Constant) and isinstance(v.operand.value, int) and not isinstance(v.operand.value, bool):
        return v
    if isinstance(v, (ast.Tuple, ast.List, ast.Set)) and v.elts and all(isinstance(e, ast.Constant) for e in v.elts):
        return ast.Tuple(elts=list(v.elts), ctx=ast.Load())
    if isinstance(v, ast.Call) and isinstance(v.func, ast.Attribute) and v.func.attr == "split" and isinstance(v.func.value, ast.Constant) and isinstance(v.func.value.value, str) and not v.keywords and all(isinstance(a, ast.Constant) and isinstance(a.value, str) for a in v.args) and len(v.args) <= 1:
        # "A B C".split(): a word list written as one literal
        parts = v.func.value.value.split(*[a.value for a in v.args])
        return ast.Tuple(elts=[ast.Constant(value=p_) for p_ in parts], ctx=ast.Load()) if parts else None
    if isinstance(v, ast.Call) and isinstance(v.func, ast.Name) and v.func.id in ("frozenset", "set", "tuple") and len(v.args) == 1 and not v.keywords:
        return _const_value(v.args[0]) if isinstance(v.args[0], (ast.Tuple, ast.List, ast.Set)) else None
    return None


def module_constants(tree):
    out = {}
    counts = {}
    for n in ast.walk(tree):
        if isinstance(n, ast.Name) and isinstance(n.ctx, (ast.Store, ast.Del)):
            counts[n.id] = counts.get(n.id, 0) + 1
        elif isinstance(n, (ast.Global, ast.Nonlocal)):
            for nm in n.names:
                counts[nm] = counts.get(nm, 0) + 2
        elif isinstance(n, ast.arg):
            counts[n.arg] = counts.get(n.arg, 0) + 2
    for st in tree.body:
        tgt = val = None
        if isinstance(st, ast.Assign) and len(st.targets) == 1 and isinstance(st.targets[0], ast.Name):
            tgt, val = st.targets[0].id, st.value
        elif isinstance(st, ast.AnnAssign) and isinstance(st.target, ast.Name) and st.value is not None:
            tgt, val = st.target.id, st.value
        if tgt and counts.get(tgt, 0) == 1:
            cv = _const_value(val)
            if cv is not None:
                out[tgt] = (cv, st)
    return out


def fold_new_constants(mods, known):
    """Replace loads of module-level constants that did not exist on the pinned tree by
    their literal value (the dual of inlining an extracted helper: an extracted constant)."""
    folded = []
    new_by_mod = {rel: {k: v for k, v in module_constants(tree).items() if f"{rel}:{k}" not in known} for rel, tree in mods.items()}
    for rel, tree in mods.items():
        consts = dict(new_by_mod[rel])
        # new constants of other modules imported by name: from .jsonrpc import METHOD_NOT_FOUND
        for local, (mod, sym) in _import_map(rel, tree).items():
            if sym is None or local in consts:
                continue
            for orel, oc in new_by_mod.items():
                if sym in oc and orel[:-3].replace("/", ".").endswith(mod) and mod:
                    consts[local] = oc[sym]
        # new module-level compiled patterns: NAME = re.compile("...")[, flags]; NAME.split(x) -> re.split("...", x)
        compiled = {}
        counts = {}
        for n in ast.walk(tree):
            if isinstance(n, ast.Name) and isinstance(n.ctx, (ast.Store, ast.Del)):
                counts[n.id] = counts.get(n.id, 0) + 1
        def _target(st):
            if isinstance(st, ast.Assign) and len(st.targets) == 1 and isinstance(st.targets[0], ast.Name):
                return st.targets[0].id
            if isinstance(st, ast.AnnAssign) and isinstance(st.target, ast.Name) and st.value is not None:
                return st.target.id
            return None

        for st in tree.body:
            if _target(st) and isinstance(st.value, ast.Call):
                c = st.value
                nm = _target(st)
                if f"{rel}:{nm}" in known or counts.get(nm, 0) != 1:
                    continue
                if isinstance(c.func, ast.Attribute) and c.func.attr == "compile" and isinstance(c.func.value, ast.Name) and c.func.value.id == "re" and c.args and isinstance(c.args[0], ast.Constant) and isinstance(c.args[0].value, str):
                    compiled[nm] = c

        if compiled:
            class Recomp(ast.NodeTransformer):
                def visit_Call(self, n):
                    self.generic_visit(n)
                    f_ = n.func
                    if isinstance(f_, ast.Attribute) and isinstance(f_.value, ast.Name) and f_.value.id in compiled and f_.attr in ("split", "match", "search", "fullmatch", "sub", "subn", "findall", "finditer"):
                        c = compiled[f_.value.id]
                        limit = {"split": 2, "sub": 3, "subn": 3}.get(f_.attr, 1)
                        if len(n.args) > limit:
                            return n  # pos/endpos style arguments have no module-level equivalent
                        flags = list(c.args[1:2]) + [k.value for k in c.keywords if k.arg == "flags"]
                        new = ast.Call(func=ast.Attribute(value=ast.Name(id="re", ctx=ast.Load()), attr=f_.attr, ctx=ast.Load()), args=[copy.deepcopy(c.args[0])] + n.args, keywords=list(n.keywords) + ([ast.keyword(arg="flags", value=copy.deepcopy(flags[0]))] if flags else []))
                        folded.append((f"{rel}:{f_.value.id}", getattr(n, "lineno", 0)))
                        return ast.copy_location(new, n)
                    return n

            for st in tree.body:
                if _target(st) in compiled:
                    continue
                Recomp().visit(st)
            ast.fix_missing_locations(tree)
        if not consts:
            continue

        class Fold(ast.NodeTransformer):
            def visit_Name(self, n):
                if isinstance(n.ctx, ast.Load) and n.id in consts:
                    folded.append((f"{rel}:{n.id}", getattr(n, "lineno", 0)))
                    return ast.copy_location(copy.deepcopy(consts[n.id][0]), n)
                return n

            def visit_JoinedStr(self, n):
                self.generic_visit(n)
                vals = []
                for v in n.values:
                    if isinstance(v, ast.FormattedValue) and isinstance(v.value, ast.Constant) and isinstance(v.value.value, str) and v.conversion == -1 and v.format_spec is None:
                        v = ast.copy_location(ast.Constant(value=v.value.value), v)
                    if vals and isinstance(v, ast.Constant) and isinstance(vals[-1], ast.Constant) and isinstance(v.value, str) and isinstance(vals[-1].value, str):
                        vals[-1] = ast.copy_location(ast.Constant(value=vals[-1].value + v.value), vals[-1])
                    else:
                        vals.append(v)
                n.values = vals
                return n

        for st in list(tree.body):
            if any(st is c[1] for c in consts.values()):
                continue
            Fold().visit(st)
    folded += _fold_new_class_constants(mods, known)
    return folded


def _fold_new_class_constants(mods, known):
    """`class C: encoding = "utf-8"` ... `x.encode(self.encoding)`: a class-level constant that is
    not on the pinned tree, defined in exactly one class, never assigned through an attribute
    anywhere in the package, is read as its literal."""
    folded = []
    cands = {}  # attr name -> [(rel, class node, assign node, value)]
    stored_attrs = set()
    for rel, tree in mods.items():
        for n in ast.walk(tree):
            if isinstance(n, ast.Attribute) and isinstance(n.ctx, (ast.Store, ast.Del)):
                stored_attrs.add(n.attr)
            elif isinstance(n, ast.Call) and isinstance(n.func, ast.Name) and n.func.id in ("setattr", "delattr"):
                stored_attrs.add("*")
        for cls in (x for x in ast.walk(tree) if isinstance(x, ast.ClassDef)):
            for st in cls.body:
                tgt = val = None
                if isinstance(st, ast.Assign) and len(st.targets) == 1 and isinstance(st.targets[0], ast.Name):
                    tgt, val = st.targets[0].id, st.value
                elif isinstance(st, ast.AnnAssign) and isinstance(st.target, ast.Name) and st.value is not None:
                    tgt, val = st.target.id, st.value
                if tgt:
                    cands.setdefault(tgt, []).append((rel, cls, st, val))
    # reflective writes with computed names could hit any attribute: only names that no
    # setattr could produce are safe - keep it simple and require that the package has no
    # class attribute / instance attribute of that name anywhere else
    for name, defs in cands.items():
        if len(defs) != 1 or name in stored_attrs:
            continue
        rel, cls, st, val = defs[0]
        if any(f"{rel}:{q}" in known for q in (f"{cls.name}.{name}",)):
            continue
        cv = _const_value(val)
        if cv is None or not isinstance(cv, ast.Constant):
            continue
        # instance fields of the same name set in methods (self.name = ..) were excluded by stored_attrs
        for rel2, tree2 in mods.items():
            class F(ast.NodeTransformer):
                def visit_Attribute(self, n):
                    self.generic_visit(n)
                    if n.attr == name and isinstance(n.ctx, ast.Load) and isinstance(n.value, ast.Name) and (n.value.id in ("self", "cls") or n.value.id == cls.name):
                        folded.append((f"{rel}:{cls.name}.{name}", getattr(n, "lineno", 0)))
                        return ast.copy_location(copy.deepcopy(cv), n)
                    return n

            F().visit(tree2)
    return folded


def expand_name_table_dispatch(mods, known_consts_):
    """`class S: _HANDLERS = {"a": "serve_a", ..}` ... `getattr(self, self._HANDLERS.get(k, "serve_default"))`
    is the table of bound methods `{"a": self.serve_a, ..}.get(k, self.serve_default)` written with
    names: a class-level dict of str -> method name that is not on the pinned tree is expanded at
    such getattr sites (exact desugaring: the names are those of methods of the class)."""
    done = []
    for rel, tree in mods.items():
        for cls in (x for x in ast.walk(tree) if isinstance(x, ast.ClassDef)):
            methods = {m.name for m in cls.body if isinstance(m, (ast.FunctionDef, ast.AsyncFunctionDef))}
            tables = {}
            for st in cls.body:
                tgt = val = None
                if isinstance(st, ast.Assign) and len(st.targets) == 1 and isinstance(st.targets[0], ast.Name):
                    tgt, val = st.targets[0].id, st.value
                elif isinstance(st, ast.AnnAssign) and isinstance(st.target, ast.Name) and st.value is not None:
                    tgt, val = st.target.id, st.value
                if tgt and isinstance(val, ast.Dict) and val.keys and all(isinstance(k, ast.Constant) and isinstance(k.value, str) for k in val.keys) and all(isinstance(v, ast.Constant) and isinstance(v.value, str) and v.value in methods for v in val.values):
                    if f"{rel}:{cls.name}.{tgt}" not in known_consts_ and f"{rel}:{tgt}" not in known_consts_:
                        tables[tgt] = val
            if not tables:
                continue

            class T(ast.NodeTransformer):
                def visit_Call(self, n):
                    self.generic_visit(n)
                    if not (isinstance(n.func, ast.Name) and n.func.id == "getattr" and len(n.args) == 2 and not n.keywords):
                        return n
                    obj, sel = n.args
                    def tab(e):
                        if isinstance(e, ast.Attribute) and e.attr in tables and isinstance(e.value, ast.Name) and e.value.id in ("self", "cls", cls.name):
                            return tables[e.attr]
                        return None
                    def bound(name):
                        return ast.Attribute(value=copy.deepcopy(obj), attr=name, ctx=ast.Load())
                    if isinstance(sel, ast.Call) and isinstance(sel.func, ast.Attribute) and sel.func.attr == "get" and tab(sel.func.value) is not None and 1 <= len(sel.args) <= 2 and not sel.keywords:
                        d = tab(sel.func.value)
                        dflt = sel.args[1] if len(sel.args) == 2 else None
                        if dflt is not None and not (isinstance(dflt, ast.Constant) and isinstance(dflt.value, str) and dflt.value in methods):
                            return n
                        disp = ast.Dict(keys=[copy.deepcopy(k) for k in d.keys], values=[bound(v.value) for v in d.values])
                        new = ast.Call(func=ast.Attribute(value=disp, attr="get", ctx=ast.Load()), args=[sel.args[0]] + ([bound(dflt.value)] if dflt is not None else []), keywords=[])
                        done.append((rel, getattr(n, "lineno", 0)))
                        return ast.copy_location(new, n)
                    if isinstance(sel, ast.Subscript) and tab(sel.value) is not None:
                        d = tab(sel.value)
                        disp = ast.Dict(keys=[copy.deepcopy(k) for k in d.keys], values=[bound(v.value) for v in d.values])
                        done.append((rel, getattr(n, "lineno", 0)))
                        return ast.copy_location(ast.Subscript(value=disp, slice=sel.slice, ctx=ast.Load()), n)
                    return n

            for m in cls.body:
                if isinstance(m, (ast.FunctionDef, ast.AsyncFunctionDef)):
                    T().visit(m)
        ast.fix_missing_locations(tree)
    return done


# ------------------------------------------- reflective loops over option names
def unroll_reflective_loops(mods):
    """`for name in ("a", "b"): setattr(obj, name, d.get(name, getattr(obj, name)))`
    is unrolled and the constant-name getattr/setattr become attribute accesses, so
    the table rules see `obj.a = d.get("a", obj.a)` again."""
    done = []

    class Subst(ast.NodeTransformer):
        def __init__(self, var, const):
            self.var, self.const = var, const

        def visit_Name(self, n):
            if n.id == self.var and isinstance(n.ctx, ast.Load):
                return ast.copy_location(ast.Constant(value=self.const), n)
            return n

    class Reflect(ast.NodeTransformer):
        def visit_Call(self, n):
            self.generic_visit(n)
            if isinstance(n.func, ast.Name) and n.func.id == "getattr" and len(n.args) == 2 and not n.keywords and isinstance(n.args[1], ast.Constant) and isinstance(n.args[1].value, str) and n.args[1].value.isidentifier():
                return ast.copy_location(ast.Attribute(value=n.args[0], attr=n.args[1].value, ctx=ast.Load()), n)
            return n

        def visit_Expr(self, st):
            self.generic_visit(st)
            n = st.value
            if isinstance(n, ast.Call) and isinstance(n.func, ast.Name) and n.func.id == "setattr" and len(n.args) == 3 and not n.keywords and isinstance(n.args[1], ast.Constant) and isinstance(n.args[1].value, str) and n.args[1].value.isidentifier():
                return ast.copy_location(ast.Assign(targets=[ast.Attribute(value=n.args[0], attr=n.args[1].value, ctx=ast.Store())], value=n.args[2], lineno=st.lineno), st)
            return st

    def reflective(body, var):
        for b in body:
            for n in ast.walk(b):
                if isinstance(n, ast.Call) and isinstance(n.func, ast.Name) and n.func.id in ("getattr", "setattr") and len(n.args) >= 2 and isinstance(n.args[1], ast.Name) and n.args[1].id == var:
                    return True
                # `for step in (self.a, self.b): step(x)`: a loop over function values
                if isinstance(n, ast.Call) and isinstance(n.func, ast.Name) and n.func.id == var:
                    return True
        return False

    class SubstExpr(ast.NodeTransformer):
        def __init__(self, var, expr):
            self.var, self.expr = var, expr

        def visit_Name(self, n):
            if n.id == self.var and isinstance(n.ctx, ast.Load):
                return ast.copy_location(copy.deepcopy(self.expr), n)
            return n

    def do_block(stmts, rel):
        out = []
        for st in stmts:
            for field in ("body", "orelse", "finalbody"):
                b = getattr(st, field, None)
                if isinstance(b, list) and b and isinstance(b[0], ast.stmt):
                    setattr(st, field, do_block(b, rel))
            if isinstance(st, ast.Try):
                for h in st.handlers:
                    h.body = do_block(h.body, rel)
            if (isinstance(st, ast.For) and isinstance(st.target, ast.Name) and not st.orelse and isinstance(st.iter, (ast.Tuple, ast.List)) and 0 < len(st.iter.elts) <= 24
                    and (all(isinstance(e, ast.Constant) and isinstance(e.value, str) for e in st.iter.elts) or (len(st.iter.elts) <= 8 and all(isinstance(e, (ast.Attribute, ast.Name)) for e in st.iter.elts))) and reflective(st.body, st.target.id)
                    and not any(isinstance(n, (ast.Break, ast.Continue)) for b in st.body for n in ast.walk(b))
                    and not any(isinstance(n, ast.Name) and n.id == st.target.id and isinstance(n.ctx, ast.Store) for b in st.body for n in ast.walk(b))):
                for e in st.iter.elts:
                    for b in st.body:
                        nb = (Subst(st.target.id, e.value) if isinstance(e, ast.Constant) else SubstExpr(st.target.id, e)).visit(copy.deepcopy(b))
                        nb = Reflect().visit(nb)
                        out.append(ast.fix_missing_locations(nb))
                done.append((rel, getattr(st, "lineno", 0), len(st.iter.elts)))
                continue
            out.append(st)
        return out

    for rel, tree in mods.items():
        for n in ast.walk(tree):
            if isinstance(n, (ast.FunctionDef, ast.AsyncFunctionDef)):
                n.body = do_block(n.body, rel)
    return done


def unroll_new_table_loops(mods, kf):
    """`for tag, pat in (("import", P1), ("vis", P2)): if pat.match(x): return tag, None` - a
    chain of tests rewritten as a loop over a literal table.  Such a loop that is not on the
    pinned tree (its head is not among the statement hashes of the function it sits in) is
    unrolled, so the rules see the chain again.  Only loops whose table is a display of
    constants / names / attributes (or tuples of those), at most 8 rows, without break /
    continue / else, whose variables are not re-bound in the body."""
    import hashlib

    from . import renames

    done = []
    if not isinstance(kf, dict):
        return done

    def simple(e):
        return isinstance(e, (ast.Constant, ast.Name, ast.Attribute)) and not isinstance(getattr(e, "ctx", None), ast.Store)

    class SubstMany(ast.NodeTransformer):
        def __init__(self, env):
            self.env = env

        def visit_Name(self, n):
            if n.id in self.env and isinstance(n.ctx, ast.Load):
                return ast.copy_location(copy.deepcopy(self.env[n.id]), n)
            return n

    def head_hash(fn, st):
        c = copy.copy(st)
        for fld in ("body", "orelse", "finalbody", "handlers"):
            if hasattr(c, fld):
                setattr(c, fld, [])
        c = renames._Norm(fn.name).visit(copy.deepcopy(c))
        return hashlib.md5(ast.dump(c).encode()).hexdigest()[:10]

    def rows_of(st):
        if not (isinstance(st.iter, (ast.Tuple, ast.List)) and 0 < len(st.iter.elts) <= 8) or st.orelse:
            return None
        if isinstance(st.target, ast.Name):
            if all(simple(e) for e in st.iter.elts):
                return [{st.target.id: e} for e in st.iter.elts]
            return None
        if isinstance(st.target, (ast.Tuple, ast.List)) and all(isinstance(t, ast.Name) for t in st.target.elts):
            names = [t.id for t in st.target.elts]
            rows = []
            for e in st.iter.elts:
                if not (isinstance(e, (ast.Tuple, ast.List)) and len(e.elts) == len(names) and all(simple(x) for x in e.elts)):
                    return None
                rows.append(dict(zip(names, e.elts)))
            return rows
        return None

    def do_block(stmts, fn, known_heads, rel):
        out = []
        for st in stmts:
            for field in ("body", "orelse", "finalbody"):
                b = getattr(st, field, None)
                if isinstance(b, list) and b and isinstance(b[0], ast.stmt) and not isinstance(st, (ast.FunctionDef, ast.AsyncFunctionDef, ast.ClassDef)):
                    setattr(st, field, do_block(b, fn, known_heads, rel))
            if isinstance(st, ast.Try):
                for h in st.handlers:
                    h.body = do_block(h.body, fn, known_heads, rel)
            if isinstance(st, ast.For):
                rows = rows_of(st)
                if rows is not None and head_hash(fn, st) not in known_heads:
                    vars_ = set(rows[0])
                    body_nodes = [n for b in st.body for n in ast.walk(b)]
                    if not any(isinstance(n, (ast.Break, ast.Continue, ast.FunctionDef, ast.Lambda)) for n in body_nodes) and not any(isinstance(n, ast.Name) and n.id in vars_ and isinstance(n.ctx, (ast.Store, ast.Del)) for n in body_nodes):
                        for env in rows:
                            for b in st.body:
                                out.append(ast.fix_missing_locations(SubstMany(env).visit(copy.deepcopy(b))))
                        done.append((rel, getattr(st, "lineno", 0), len(rows)))
                        continue
            out.append(st)
        return out

    for rel, tree in mods.items():
        for q, fn, holder, cls, parent in renames.collect_functions(tree, rel):
            known_heads = set((kf.get(q) or {}).get("fp", ())) if q in kf else None
            if known_heads is None:
                continue  # a function that is not on the pinned tree is inlined or matched elsewhere
            fn.body = do_block(fn.body, fn, known_heads, rel)
    return done


def expand_any_all(mods, known):
    """`return not any(map(pred, gen(xs)))` / `ok = all(pred(x) for x in xs)`: when the predicate
    or the iterable is a helper that is not on the pinned tree, the reduction is written out
    as the loop it abbreviates, so the helpers can be inlined and the rules see the tests again:

        _any1 = False
        for x in gen(xs):
            if pred(x):
                _any1 = True
                break
        return not _any1
    """
    done = []
    counter = [0]

    def new_call(e, rel):
        for c in ast.walk(e):
            if isinstance(c, ast.Call):
                nm = c.func.id if isinstance(c.func, ast.Name) else (c.func.attr if isinstance(c.func, ast.Attribute) else None)
                if nm and nm in new_names:
                    return True
        return False

    def as_gen(call):
        """(elt, target, iter, ifs) of any(...)/all(...) argument"""
        if len(call.args) != 1 or call.keywords:
            return None
        a = call.args[0]
        if isinstance(a, (ast.GeneratorExp, ast.ListComp)) and len(a.generators) == 1 and not a.generators[0].is_async:
            g = a.generators[0]
            return a.elt, g.target, g.iter, list(g.ifs)
        if isinstance(a, ast.Call) and isinstance(a.func, ast.Name) and a.func.id == "map" and len(a.args) == 2 and not a.keywords and isinstance(a.args[0], (ast.Name, ast.Attribute)):
            counter[0] += 1
            v = f"_it{counter[0]}"
            elt = ast.Call(func=copy.deepcopy(a.args[0]), args=[ast.Name(id=v, ctx=ast.Load())], keywords=[])
            return elt, ast.Name(id=v, ctx=ast.Store()), a.args[1], []
        return None

    def rewrite(st, rel):
        """list of statements replacing st, or None"""
        if not isinstance(st, (ast.Return, ast.Assign)) or getattr(st, "value", None) is None:
            return None
        hits = [c for c in ast.walk(st.value) if isinstance(c, ast.Call) and isinstance(c.func, ast.Name) and c.func.id in ("any", "all")]
        if len(hits) != 1:
            return None
        call = hits[0]
        g = as_gen(call)
        if g is None:
            return None
        elt, target, it, ifs = g
        if not (new_call(elt, rel) or new_call(it, rel)):
            return None
        # the reduction must be evaluated unconditionally where it stands (not under and/or/ifexp/lambda)
        par = {c: p for p in ast.walk(st.value) for c in ast.iter_child_nodes(p)}
        p_ = par.get(call)
        while p_ is not None:
            if isinstance(p_, (ast.BoolOp, ast.IfExp, ast.Lambda, ast.GeneratorExp, ast.ListComp, ast.SetComp, ast.DictComp)):
                return None
            p_ = par.get(p_)
        counter[0] += 1
        is_any = call.func.id == "any"
        flag = f"_{'any' if is_any else 'all'}{counter[0]}"
        ln = getattr(st, "lineno", 0)
        test = elt if is_any else ast.UnaryOp(op=ast.Not(), operand=elt)
        inner = [ast.If(test=test, body=[ast.Assign(targets=[ast.Name(id=flag, ctx=ast.Store())], value=ast.Constant(value=is_any), lineno=ln), ast.Break()], orelse=[])]
        for cond in reversed(ifs):
            inner = [ast.If(test=cond, body=inner, orelse=[])]
        loop = ast.For(target=target, iter=it, body=inner, orelse=[], lineno=ln)
        init = ast.Assign(targets=[ast.Name(id=flag, ctx=ast.Store())], value=ast.Constant(value=not is_any), lineno=ln)

        class Sub(ast.NodeTransformer):
            def visit_Call(self, n):
                if n is call:
                    return ast.copy_location(ast.Name(id=flag, ctx=ast.Load()), n)
                return self.generic_visit(n)

        st2 = copy.copy(st)
        st2.value = Sub().visit(st.value)
        out = [init, loop, st2]
        for o in out:
            ast.copy_location(o, st)
            ast.fix_missing_locations(o)
        return out

    def do_block(stmts, rel):
        out = []
        for st in stmts:
            for field in ("body", "orelse", "finalbody"):
                b = getattr(st, field, None)
                if isinstance(b, list) and b and isinstance(b[0], ast.stmt) and not isinstance(st, ast.ClassDef):
                    setattr(st, field, do_block(b, rel))
            if isinstance(st, ast.Try):
                for h in st.handlers:
                    h.body = do_block(h.body, rel)
            r = rewrite(st, rel)
            if r is not None:
                out.extend(r)
                done.append((rel, getattr(st, "lineno", 0)))
            else:
                out.append(st)
        return out

    # names of functions that are not on the pinned tree
    from . import renames

    new_names = set()
    for rel, tree in mods.items():
        for q, fn, holder, cls, parent in renames.collect_functions(tree, rel):
            if q not in known:
                new_names.add(fn.name)
    if not new_names:
        return done
    for rel, tree in mods.items():
        for n in ast.walk(tree):
            if isinstance(n, (ast.FunctionDef, ast.AsyncFunctionDef)):
                n.body = do_block(n.body, rel)
    return done


def expand_extend_generators(mods, known):
    """`acc.extend(gen(args))` / `acc += gen(args)` with a generator function that is not on the
    pinned tree  ->  `for v in gen(args): acc.append(v)` (extend consumes the generator at once),
    so that the generator can be inlined like any `for ... in gen()` loop."""
    from . import renames

    done = []
    gens = set()
    for rel, tree in mods.items():
        for q, fn, holder, cls, parent in renames.collect_functions(tree, rel):
            if q not in known and any(isinstance(n, (ast.Yield, ast.YieldFrom)) for n in _own_walk(fn)):
                gens.add(fn.name)
    if not gens:
        return done
    counter = [0]

    def is_gen_call(e):
        if not isinstance(e, ast.Call):
            return False
        nm = e.func.id if isinstance(e.func, ast.Name) else (e.func.attr if isinstance(e.func, ast.Attribute) else None)
        return nm in gens

    def do_block(stmts, rel):
        out = []
        for st in stmts:
            for fld in ("body", "orelse", "finalbody"):
                b = getattr(st, fld, None)
                if isinstance(b, list) and b and isinstance(b[0], ast.stmt) and not isinstance(st, ast.ClassDef):
                    setattr(st, fld, do_block(b, rel))
            if isinstance(st, ast.Try):
                for h in st.handlers:
                    h.body = do_block(h.body, rel)
            acc = src = None
            if isinstance(st, ast.Expr) and isinstance(st.value, ast.Call) and isinstance(st.value.func, ast.Attribute) and st.value.func.attr == "extend" and len(st.value.args) == 1 and not st.value.keywords and is_gen_call(st.value.args[0]) and isinstance(st.value.func.value, (ast.Name, ast.Attribute)):
                acc, src = st.value.func.value, st.value.args[0]
            elif isinstance(st, ast.AugAssign) and isinstance(st.op, ast.Add) and is_gen_call(st.value) and isinstance(st.target, ast.Name):
                acc, src = ast.Name(id=st.target.id, ctx=ast.Load()), st.value
            if acc is not None:
                counter[0] += 1
                v = f"_item{counter[0]}"
                app = ast.Expr(value=ast.Call(func=ast.Attribute(value=copy.deepcopy(acc), attr="append", ctx=ast.Load()), args=[ast.Name(id=v, ctx=ast.Load())], keywords=[]))
                loop = ast.For(target=ast.Name(id=v, ctx=ast.Store()), iter=src, body=[app], orelse=[], lineno=st.lineno)
                ast.copy_location(loop, st)
                ast.copy_location(app, st)
                ast.fix_missing_locations(loop)
                out.append(loop)
                done.append((rel, getattr(st, "lineno", 0)))
                continue
            out.append(st)
        return out

    for rel, tree in mods.items():
        for n in ast.walk(tree):
            if isinstance(n, (ast.FunctionDef, ast.AsyncFunctionDef)):
                n.body = do_block(n.body, rel)
    return done


def expand_iter_sentinel(mods):
    """`for x in iter(f, sentinel): BODY` is exactly
    `while True: x = f(); if x == sentinel: break; BODY` - written out so that the rules see
    the call and the stop test."""
    done = []

    def do_block(stmts, rel):
        out = []
        for st in stmts:
            for fld in ("body", "orelse", "finalbody"):
                b = getattr(st, fld, None)
                if isinstance(b, list) and b and isinstance(b[0], ast.stmt) and not isinstance(st, ast.ClassDef):
                    setattr(st, fld, do_block(b, rel))
            if isinstance(st, ast.Try):
                for h in st.handlers:
                    h.body = do_block(h.body, rel)
            it = getattr(st, "iter", None)
            if (isinstance(st, ast.For) and not st.orelse and isinstance(st.target, ast.Name) and isinstance(it, ast.Call) and isinstance(it.func, ast.Name) and it.func.id == "iter" and len(it.args) == 2 and not it.keywords and isinstance(it.args[0], (ast.Name, ast.Attribute))):
                call = ast.Call(func=it.args[0], args=[], keywords=[])
                assign = ast.Assign(targets=[ast.Name(id=st.target.id, ctx=ast.Store())], value=call, lineno=st.lineno)
                stop = ast.If(test=ast.Compare(left=ast.Name(id=st.target.id, ctx=ast.Load()), ops=[ast.Eq()], comparators=[it.args[1]]), body=[ast.Break()], orelse=[])
                w = ast.While(test=ast.Constant(value=True), body=[assign, stop] + st.body, orelse=[])
                for x in (assign, stop, w):
                    ast.copy_location(x, st)
                ast.fix_missing_locations(w)
                out.append(w)
                done.append((rel, getattr(st, "lineno", 0)))
                continue
            out.append(st)
        return out

    for rel, tree in mods.items():
        for n in ast.walk(tree):
            if isinstance(n, (ast.FunctionDef, ast.AsyncFunctionDef)):
                n.body = do_block(n.body, rel)
    return done


def split_isinstance_handlers(mods):
    """`except B as e: if isinstance(e, A): X else: Y; REST`  ->  `except A as e: X; REST`
    followed by `except B as e: Y; REST` (A is tried first, so the outcome is the same).  The
    dispatch on the exception's class is what separate except clauses spell, and the rules
    read handlers clause by clause."""
    done = []
    for rel, tree in mods.items():
        for t in (n for n in ast.walk(tree) if isinstance(n, ast.Try)):
            new_handlers = []
            for h in t.handlers:
                first = h.body[0] if h.body else None
                # leading comments are not in the tree; a docstring-like constant may precede
                ok = (h.name and isinstance(first, ast.If) and isinstance(first.test, ast.Call) and isinstance(first.test.func, ast.Name) and first.test.func.id == "isinstance" and len(first.test.args) == 2 and isinstance(first.test.args[0], ast.Name) and first.test.args[0].id == h.name and isinstance(first.test.args[1], (ast.Name, ast.Attribute)) and first.orelse)
                if ok:
                    stores = [x for b in h.body for x in ast.walk(b) if isinstance(x, ast.Name) and x.id == h.name and isinstance(x.ctx, (ast.Store, ast.Del))]
                    ok = not stores
                if not ok:
                    new_handlers.append(h)
                    continue
                rest = h.body[1:]
                a = ast.ExceptHandler(type=copy.deepcopy(first.test.args[1]), name=h.name, body=list(first.body) + copy.deepcopy(rest))
                b = ast.ExceptHandler(type=h.type, name=h.name, body=list(first.orelse) + rest)
                for x in (a, b):
                    ast.copy_location(x, h)
                    ast.fix_missing_locations(x)
                new_handlers += [a, b]
                done.append((rel, getattr(h, "lineno", 0)))
            t.handlers = new_handlers
    return done


def expand_match_spans(mods):
    """f(a, *m.span(k)) -> f(a, m.start(k), m.end(k))  (re.Match.span(k) is exactly that pair)"""
    n_done = 0
    for tree in mods.values():
        for n in ast.walk(tree):
            if isinstance(n, ast.Call) and any(isinstance(a, ast.Starred) and isinstance(a.value, ast.Call) and isinstance(a.value.func, ast.Attribute) and a.value.func.attr == "span" and isinstance(a.value.func.value, ast.Name) and not a.value.keywords and len(a.value.args) <= 1 for a in n.args):
                new = []
                for a in n.args:
                    if isinstance(a, ast.Starred) and isinstance(a.value, ast.Call) and isinstance(a.value.func, ast.Attribute) and a.value.func.attr == "span" and isinstance(a.value.func.value, ast.Name):
                        m, args = a.value.func.value, a.value.args
                        for meth in ("start", "end"):
                            new.append(ast.copy_location(ast.Call(func=ast.Attribute(value=copy.deepcopy(m), attr=meth, ctx=ast.Load()), args=copy.deepcopy(args), keywords=[]), a))
                        n_done += 1
                    else:
                        new.append(a)
                n.args = new
        # a, b = m.span(k)  ->  a = m.start(k); b = m.end(k)
        for holder in ast.walk(tree):
            for fld in ("body", "orelse", "finalbody"):
                sts = getattr(holder, fld, None)
                if not (isinstance(sts, list) and sts and isinstance(sts[0], ast.stmt)):
                    continue
                out = []
                for st in sts:
                    v = getattr(st, "value", None)
                    if (isinstance(st, ast.Assign) and len(st.targets) == 1 and isinstance(st.targets[0], (ast.Tuple, ast.List)) and len(st.targets[0].elts) == 2 and all(isinstance(t, ast.Name) for t in st.targets[0].elts)
                            and isinstance(v, ast.Call) and isinstance(v.func, ast.Attribute) and v.func.attr == "span" and isinstance(v.func.value, ast.Name) and not v.keywords and len(v.args) <= 1):
                        for t, meth in zip(st.targets[0].elts, ("start", "end")):
                            new = ast.Assign(targets=[ast.Name(id=t.id, ctx=ast.Store())], value=ast.Call(func=ast.Attribute(value=copy.deepcopy(v.func.value), attr=meth, ctx=ast.Load()), args=copy.deepcopy(v.args), keywords=[]), lineno=st.lineno)
                            out.append(ast.fix_missing_locations(ast.copy_location(new, st)))
                        n_done += 1
                    else:
                        out.append(st)
                setattr(holder, fld, out)
        if n_done:
            ast.fix_missing_locations(tree)
    return n_done


def constant_reflection(mods):
    """getattr(x, "name") -> x.name, setattr(x, "name", v) -> x.name = v for literal names
    (they appear when a helper taking the attribute name as a string is inlined)"""
    n_done = 0

    class Reflect(ast.NodeTransformer):
        def visit_Call(self, n):
            nonlocal n_done
            self.generic_visit(n)
            if isinstance(n.func, ast.Name) and n.func.id == "getattr" and len(n.args) == 2 and not n.keywords and isinstance(n.args[1], ast.Constant) and isinstance(n.args[1].value, str) and n.args[1].value.isidentifier():
                n_done += 1
                return ast.copy_location(ast.Attribute(value=n.args[0], attr=n.args[1].value, ctx=ast.Load()), n)
            return n

        def visit_Expr(self, st):
            nonlocal n_done
            self.generic_visit(st)
            n = st.value
            if isinstance(n, ast.Call) and isinstance(n.func, ast.Name) and n.func.id == "setattr" and len(n.args) == 3 and not n.keywords and isinstance(n.args[1], ast.Constant) and isinstance(n.args[1].value, str) and n.args[1].value.isidentifier():
                n_done += 1
                return ast.copy_location(ast.Assign(targets=[ast.Attribute(value=n.args[0], attr=n.args[1].value, ctx=ast.Store())], value=n.args[2], lineno=st.lineno), st)
            return st

    return n_done, Reflect


def normalise(mods, known=None):
    """In-place normalisation of the module trees.  Returns (inlined call sites,
    removed helpers)."""
    if known is None:
        known = known_functions()
    from . import renames

    kf, kc = renames.load_known()
    # before names are put back: the table spells method names as strings
    table_sites = expand_name_table_dispatch(mods, known_constants())
    renamed = renames.undo_renames(mods, kf, kc) if isinstance(kf, dict) else []
    protected = renames.weak_candidates(mods, kf) if isinstance(kf, dict) else set()
    folded = fold_new_constants(mods, known_constants())
    for what, old, new_, score in renamed:
        folded.append((f"{what} {new_} is known as {old} (body match {score})", 0))
    expand_match_spans(mods)
    for rel, ln in table_sites:
        folded.append((f"name table of handlers in {rel} expanded to bound methods", ln))
    for rel, ln, n in unroll_reflective_loops(mods):
        folded.append((f"loop over {n} option names in {rel}", ln))
    for rel, ln, n in unroll_new_table_loops(mods, kf):
        folded.append((f"new loop over a literal table of {n} rows in {rel} unrolled", ln))
    for rel, ln in expand_iter_sentinel(mods):
        folded.append((f"for ... in iter(callable, sentinel) in {rel} written out", ln))
    for rel, ln in split_isinstance_handlers(mods):
        folded.append((f"except clause that dispatches on isinstance() in {rel} split into clauses", ln))
    for rel, ln in expand_extend_generators(mods, known):
        folded.append((f"extend() over a new generator in {rel} written out as a loop", ln))
    for rel, ln in expand_any_all(mods, known):
        folded.append((f"any()/all() over a new helper in {rel} written out as a loop", ln))
    rep, dropped = _Inliner(mods, known, protected).run()
    if protected and isinstance(kf, dict):
        # a renamed function whose body had been split into new helpers matches now
        again = renames.undo_renames(mods, kf, kc)
        for what, old, new_, score in again:
            folded.append((f"{what} {new_} is known as {old} (body match {score}, after inlining its helpers)", 0))
        if again:
            rep2, dropped2 = _Inliner(mods, known, set()).run()
            rep, dropped = rep + rep2, dropped + dropped2
    if rep:
        # literal attribute names produced by inlining `helper(self, "name")`
        _, Reflect = constant_reflection(mods)
        touched = {c.split(":")[0] for _, c, _ in rep if c}
        for rel in touched:
            if rel in mods:
                Reflect().visit(mods[rel])
                ast.fix_missing_locations(mods[rel])
    return rep + [("const " + q, "", ln) for q, ln in folded], dropped
