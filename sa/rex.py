"""Regular expressions as analysis objects (DESIGN.md 2.4): constant folding of
pattern expressions and queries on the syntax tree the standard library's own
parser builds.  Nothing is compiled or matched."""
from __future__ import annotations

import ast
import re._constants as C
import re._parser as P

from .model import Func, Model, const_str, unparse

HOLE = ""  # private-use marker standing for an interpolated hole

FLAG_NAMES = {
    "I": P.SRE_FLAG_IGNORECASE, "IGNORECASE": P.SRE_FLAG_IGNORECASE,
    "M": P.SRE_FLAG_MULTILINE, "MULTILINE": P.SRE_FLAG_MULTILINE,
    "S": P.SRE_FLAG_DOTALL, "DOTALL": P.SRE_FLAG_DOTALL,
    "X": P.SRE_FLAG_VERBOSE, "VERBOSE": P.SRE_FLAG_VERBOSE,
    "A": P.SRE_FLAG_ASCII, "ASCII": P.SRE_FLAG_ASCII,
    "U": P.SRE_FLAG_UNICODE, "UNICODE": P.SRE_FLAG_UNICODE,
}
RE_FUNCS = {"compile", "match", "search", "fullmatch", "sub", "subn", "split", "findall", "finditer"}


class Hole:
    def __init__(self, expr):
        self.expr = expr

    def __repr__(self):
        return "{" + unparse(self.expr) + "}"


class Folder:
    """Folds string-valued expressions to templates: lists of str | Hole."""

    def __init__(self, model: Model):
        self.m = model

    def fold(self, rel, e, f: Func | None = None, depth=0):
        if depth > 6:
            return [Hole(e)]
        s = const_str(e)
        if s is not None:
            return [s]
        if isinstance(e, ast.BinOp) and isinstance(e.op, ast.Add):
            return self._merge(self.fold(rel, e.left, f, depth + 1) + self.fold(rel, e.right, f, depth + 1))
        if isinstance(e, ast.JoinedStr):
            out = []
            for v in e.values:
                if isinstance(v, ast.Constant):
                    out.append(v.value)
                elif isinstance(v, ast.FormattedValue):
                    inner = self.fold(rel, v.value, f, depth + 1) if v.format_spec is None and v.conversion == -1 else [Hole(v.value)]
                    out += inner
            return self._merge(out)
        if isinstance(e, ast.Call) and isinstance(e.func, ast.Attribute) and e.func.attr == "join" and len(e.args) == 1:
            sep = self.fold(rel, e.func.value, f, depth + 1)
            arg = e.args[0]
            if isinstance(arg, ast.Name):
                arg2 = self._local_value(f, arg.id)
                # a list later extended with unknown items keeps a trailing hole
                if isinstance(arg2, (ast.List, ast.Tuple)):
                    items = [self.fold(rel, x, f, depth + 1) for x in arg2.elts]
                    extended = self._list_extended(f, arg.id)
                    out = []
                    for i, it in enumerate(items):
                        if i:
                            out += sep
                        out += it
                    for ex in extended:
                        out += sep + [Hole(ex)]
                    return self._merge(out)
            if isinstance(arg, (ast.List, ast.Tuple)):
                out = []
                for i, x in enumerate(arg.elts):
                    if i:
                        out += sep
                    out += [Hole(x.value)] if isinstance(x, ast.Starred) else self.fold(rel, x, f, depth + 1)
                return self._merge(out)
            if isinstance(arg, (ast.ListComp, ast.GeneratorExp)) and len(arg.generators) == 1 and not arg.generators[0].ifs and isinstance(arg.generators[0].target, ast.Name):
                # sep.join([A + x + B for x in [c1, *user]]): one rendering of the element per item,
                # a starred (unknown-length) item stands for itself once
                src = arg.generators[0].iter
                if isinstance(src, ast.Name):
                    src = self._local_value(f, src.id)
                if isinstance(src, (ast.List, ast.Tuple)):
                    var = arg.generators[0].target.id
                    bind = getattr(self, "_bind", None)
                    if bind is None:
                        bind = self._bind = {}
                    out = []
                    for i, x in enumerate(src.elts):
                        if i:
                            out += sep
                        saved = bind.get(var)
                        bind[var] = [Hole(x.value)] if isinstance(x, ast.Starred) else self.fold(rel, x, f, depth + 1)
                        try:
                            out += self.fold(rel, arg.elt, f, depth + 1)
                        finally:
                            if saved is None:
                                bind.pop(var, None)
                            else:
                                bind[var] = saved
                    return self._merge(out)
            return [Hole(e)]
        if isinstance(e, ast.Name):
            if e.id in getattr(self, "_bind", {}):
                return list(self._bind[e.id])
            v = self._local_value(f, e.id) if f else None
            if v is None:
                v = self.m.consts.get(rel, {}).get(e.id)
                if v is None:
                    imp = self.m.imports.get(rel, {}).get(e.id)
                    if imp and imp[0] == "sym":
                        mrel = self.m.mod_rel(imp[1])
                        if mrel:
                            v = self.m.consts.get(mrel, {}).get(imp[2])
                            rel = mrel
            if v is not None and not isinstance(v, ast.Name):
                r = self.fold(rel, v, f, depth + 1)
                if not any(isinstance(x, Hole) for x in r) or (isinstance(v, ast.Call) and isinstance(v.func, ast.Attribute) and v.func.attr == "join"):
                    return r
            return [Hole(e)]
        return [Hole(e)]

    def _local_value(self, f, name):
        """The single value a local is bound to (None if rebound or not simple)."""
        if f is None:
            return None
        vals = []
        cur = f
        while cur is not None and not vals:
            for n in self.m.walk_own(cur.node):
                if isinstance(n, ast.Assign) and len(n.targets) == 1 and isinstance(n.targets[0], ast.Name) and n.targets[0].id == name:
                    vals.append(n.value)
                elif isinstance(n, (ast.AugAssign, ast.AnnAssign)) and isinstance(n.target, ast.Name) and n.target.id == name:
                    vals.append(getattr(n, "value", None))
                elif isinstance(n, (ast.For, ast.comprehension)) and name in [x.id for x in ast.walk(n.target) if isinstance(x, ast.Name)]:
                    vals.append(None)
            if name in cur.params:
                vals.append(None)
            cur = self.m.funcs.get(cur.parent) if cur.parent else None
        if len(vals) == 1:
            return vals[0]
        return None

    def _list_extended(self, f, name):
        out = []
        if f is None:
            return out
        for n in self.m.walk_own(f.node):
            if isinstance(n, ast.Call) and isinstance(n.func, ast.Attribute) and n.func.attr in ("extend", "append") and isinstance(n.func.value, ast.Name) and n.func.value.id == name:
                out += list(n.args)
        return out

    @staticmethod
    def _merge(parts):
        out = []
        for p in parts:
            if isinstance(p, str) and out and isinstance(out[-1], str):
                out[-1] += p
            else:
                out.append(p)
        return out

    def flags(self, rel, e):
        if e is None:
            return 0
        if isinstance(e, ast.BinOp) and isinstance(e.op, ast.BitOr):
            return self.flags(rel, e.left) | self.flags(rel, e.right)
        d = self.m.dotted(rel, e) if isinstance(e, (ast.Name, ast.Attribute)) else None
        if d:
            parts = d.split(".")
            if parts[0] == "re" and parts[-1] in FLAG_NAMES:
                return FLAG_NAMES[parts[-1]]
        if isinstance(e, ast.Constant) and isinstance(e.value, int):
            return e.value
        return -1  # unknown


class Rx:
    """A folded pattern with its parse tree."""

    def __init__(self, name, template, flags, rel, node, func=None):
        self.name = name
        self.template = template
        self.flags = flags
        self.rel = rel
        self.node = node
        self.func = func
        self.holes = [p for p in template if isinstance(p, Hole)]
        self.text = "".join(p if isinstance(p, str) else HOLE for p in template)
        self.error = None
        try:
            self.tree = P.parse(self.text, flags if flags > 0 else 0)
            self.tflags = self.tree.state.flags
        except Exception as e:  # re.error (or RecursionError on absurd input)
            self.tree = None
            self.tflags = 0
            self.error = str(e)

    @property
    def ignorecase(self):
        return bool(self.tflags & P.SRE_FLAG_IGNORECASE)

    def __repr__(self):
        return f"<Rx {self.name} {self.text!r}>"


# --------------------------------------------------------------- tree queries
REPEATS = (C.MAX_REPEAT, C.MIN_REPEAT, C.POSSESSIVE_REPEAT)


def items(sub):
    return list(sub.data) if hasattr(sub, "data") else list(sub)


def walk(sub):
    """Yield (op, av) for every node in the tree."""
    for op, av in items(sub):
        yield op, av
        if op is C.BRANCH:
            for alt in av[1]:
                yield from walk(alt)
        elif op in REPEATS:
            yield from walk(av[2])
        elif op is C.SUBPATTERN:
            yield from walk(av[3])
        elif op in (C.ASSERT, C.ASSERT_NOT):
            yield from walk(av[1])
        elif op is C.ATOMIC_GROUP:
            yield from walk(av)
        elif op is C.GROUPREF_EXISTS:
            yield from walk(av[1])
            if av[2] is not None:
                yield from walk(av[2])


def min_width(sub):
    return sub.getwidth()[0]


def max_width(sub):
    return sub.getwidth()[1]


def can_be_empty(sub):
    return min_width(sub) == 0


ZERO_WIDTH = (C.AT, C.ASSERT, C.ASSERT_NOT)


def has_cased_letter(sub):
    """Does the pattern mention a letter (literal, class member or range end)?"""
    for op, av in walk(sub):
        if op in (C.LITERAL, C.NOT_LITERAL):
            if chr(av).isalpha() and chr(av) != HOLE:
                return True
        elif op is C.IN:
            for o2, a2 in av:
                if o2 is C.LITERAL and chr(a2).isalpha():
                    return True
                if o2 is C.RANGE:
                    lo, hi = a2
                    if any(chr(c).isalpha() for c in (lo, hi)):
                        return True
    return False


def class_chars(av, ignorecase=False, limit=300):
    """Concrete character set of an IN node (None when it contains categories,
    negation or is too large)."""
    out = set()
    for o2, a2 in av:
        if o2 is C.LITERAL:
            out.add(chr(a2))
        elif o2 is C.RANGE:
            lo, hi = a2
            if hi - lo > limit:
                return None
            out |= {chr(c) for c in range(lo, hi + 1)}
        else:
            return None
    if ignorecase:
        out |= {c.lower() for c in out} | {c.upper() for c in out}
    return out


def first_atoms(sub, ignorecase=False):
    """Set of possible first characters of a match, with '' when the pattern can
    match the empty string and None (unknown/any) as a member when unbounded."""
    out = set()
    seq = items(sub)
    for op, av in seq:
        if op in ZERO_WIDTH:
            continue
        fs, nullable = _first_of(op, av, ignorecase)
        out |= fs
        if not nullable:
            return out
    out.add("")
    return out


def _first_of(op, av, ic):
    if op is C.LITERAL:
        ch = chr(av)
        return ({ch.lower(), ch.upper()} if ic else {ch}), False
    if op is C.IN:
        cs = class_chars(av, ic)
        return (cs if cs is not None else {None}), False
    if op in (C.ANY, C.NOT_LITERAL):
        return {None}, False
    if op in REPEATS:
        lo, hi, body = av
        fs = first_atoms(body, ic)
        nullable = lo == 0 or "" in fs
        return fs - {""}, nullable
    if op is C.SUBPATTERN:
        fs = first_atoms(av[3], ic)
        return fs - {""}, "" in fs
    if op is C.ATOMIC_GROUP:
        fs = first_atoms(av, ic)
        return fs - {""}, "" in fs
    if op is C.BRANCH:
        out, nullable = set(), False
        for alt in av[1]:
            fs = first_atoms(alt, ic)
            if "" in fs:
                nullable = True
            out |= fs - {""}
        return out, nullable
    if op is C.GROUPREF:
        return {None}, True
    if op is C.GROUPREF_EXISTS:
        out, nullable = set(), False
        for alt in (av[1], av[2]):
            if alt is None:
                nullable = True
                continue
            fs = first_atoms(alt, ic)
            if "" in fs:
                nullable = True
            out |= fs - {""}
        return out, nullable
    return {None}, True


def language(sub, ignorecase=False, limit=4000):
    """Finite language of the pattern as a set of strings, or None when it is
    infinite / too large / uses constructs outside LITERAL, IN, BRANCH,
    bounded repeats, groups and anchors (anchors are dropped)."""
    res = {""}
    for op, av in items(sub):
        if op in ZERO_WIDTH:
            continue
        part = _lang_of(op, av, ignorecase, limit)
        if part is None:
            return None
        res = {a + b for a in res for b in part}
        if len(res) > limit:
            return None
    return res


def _lang_of(op, av, ic, limit):
    if op is C.LITERAL:
        ch = chr(av)
        return {ch.lower(), ch.upper()} if ic else {ch}
    if op is C.IN:
        return class_chars(av, ic, 60)
    if op is C.SUBPATTERN:
        return language(av[3], ic, limit)
    if op is C.ATOMIC_GROUP:
        return language(av, ic, limit)
    if op is C.BRANCH:
        out = set()
        for alt in av[1]:
            l = language(alt, ic, limit)
            if l is None:
                return None
            out |= l
        return out
    if op in REPEATS:
        lo, hi, body = av
        if hi is C.MAXREPEAT or hi > 8:
            return None
        base = language(body, ic, limit)
        if base is None:
            return None
        out = set()
        cur = {""}
        for i in range(hi + 1):
            if i >= lo:
                out |= cur
            cur = {a + b for a in cur for b in base}
            if len(cur) > limit:
                return None
        return out
    return None


def top_alternatives(sub):
    """Top-level alternatives as SubPattern-like lists (a pattern without a
    top-level '|' has one); a single enclosing group is looked through."""
    seq = items(sub)
    if len(seq) == 1 and seq[0][0] is C.BRANCH:
        return [items(a) for a in seq[0][1][1]]
    if len(seq) == 1 and seq[0][0] is C.SUBPATTERN:
        return top_alternatives(seq[0][1][3])
    return [seq]


def ends_with_end_anchor(seq):
    seq = list(seq)
    while seq:
        op, av = seq[-1]
        if op is C.AT and av in (C.AT_END, C.AT_END_STRING):
            return True
        if op is C.SUBPATTERN:
            alts = top_alternatives(av[3])
            return all(ends_with_end_anchor(a) for a in alts)
        if op is C.BRANCH:
            return all(ends_with_end_anchor(items(a)) for a in av[1])
        return False
    return False


def group_node(sub, k):
    """(parent sequence, index) of capture group k."""
    def rec(seq):
        seq = items(seq)
        for i, (op, av) in enumerate(seq):
            if op is C.SUBPATTERN:
                if av[0] == k:
                    return seq, i
                r = rec(av[3])
                if r:
                    return r
            elif op is C.BRANCH:
                for alt in av[1]:
                    r = rec(alt)
                    if r:
                        return r
            elif op in REPEATS:
                r = rec(av[2])
                if r:
                    return r
            elif op in (C.ASSERT, C.ASSERT_NOT):
                r = rec(av[1])
                if r:
                    return r
            elif op is C.ATOMIC_GROUP:
                r = rec(av)
                if r:
                    return r
        return None
    return rec(sub)


def consumes(op, av):
    """Can this atom consume at least one character?"""
    if op in ZERO_WIDTH:
        return False
    if op in REPEATS:
        return av[1] != 0 and any(consumes(o, a) for o, a in items(av[2]))
    if op is C.SUBPATTERN:
        return any(consumes(o, a) for o, a in items(av[3]))
    if op is C.BRANCH:
        return any(any(consumes(o, a) for o, a in items(alt)) for alt in av[1])
    return True


def keyword_alternatives(sub, ignorecase=True):
    """For a group/branch made of literal keyword alternatives, the leading
    word ([A-Za-z_]+ prefix) of each alternative, upper-cased."""
    words = []
    for alt in top_alternatives(sub):
        w = ""
        for op, av in alt:
            if op is C.LITERAL and (chr(av).isalpha() or chr(av) == "_"):
                w += chr(av)
            else:
                break
        words.append(w.upper() if ignorecase else w)
    return words


def nested_unbounded(sub):
    """Nested unbounded repetition whose inner body can match the same first
    character as what may follow it inside the outer loop (catastrophic
    backtracking shape: (a*)*, (\\w+\\s*)*x ...).  Returns list of descriptions."""
    out = []

    def unbounded(av):
        return av[1] is C.MAXREPEAT

    def rec(seq, in_unbounded):
        for op, av in items(seq):
            if op in REPEATS:
                ub = unbounded(av)
                if ub and in_unbounded:
                    body = av[2]
                    # inner unbounded repeat inside an outer unbounded one
                    out.append("nested unbounded repetition")
                rec(av[2], in_unbounded or ub)
            elif op is C.SUBPATTERN:
                rec(av[3], in_unbounded)
            elif op is C.BRANCH:
                for alt in av[1]:
                    rec(alt, in_unbounded)
            elif op in (C.ASSERT, C.ASSERT_NOT):
                rec(av[1], False)
            elif op is C.ATOMIC_GROUP:
                rec(av, False)
    rec(sub, False)
    return out


# ------------------------------------------------------------ pattern census
class Patterns:
    """All patterns of the package and their use sites."""

    def __init__(self, model: Model):
        self.m = model
        self.folder = Folder(model)
        self.named = {}  # FRegex attribute name -> Rx
        self.inline = []  # Rx for patterns given directly to re.<fn>
        self.regex_class = None
        self._collect()

    def _re_call(self, rel, call):
        """'compile' | 'sub' | ... when call is re.<fn>(...) (after import
        resolution), else None."""
        if not isinstance(call, ast.Call):
            return None
        d = self.m.dotted(rel, call.func) if isinstance(call.func, (ast.Name, ast.Attribute)) else None
        if d and d.startswith("re.") and d[3:] in RE_FUNCS:
            return d[3:]
        return None

    def _collect(self):
        m = self.m
        for q, c in m.classes.items():
            n = 0
            for st in c.node.body:
                val = getattr(st, "value", None)
                if isinstance(st, (ast.AnnAssign, ast.Assign)) and self._re_call(c.rel, val) == "compile":
                    tgt = st.target if isinstance(st, ast.AnnAssign) else st.targets[0]
                    if isinstance(tgt, ast.Name):
                        self.named[tgt.id] = self._rx(tgt.id, c.rel, val, None)
                        n += 1
            if n >= 10:
                self.regex_class = c
        for rel, tree in m.mods.items():
            for call in ast.walk(tree):
                fn = self._re_call(rel, call)
                if not fn:
                    continue
                if any(rx.node is call for rx in self.named.values()):
                    continue
                f = m.enclosing_func(call)
                name = f"{f.short if f else rel}:{call.lineno}:{fn}"
                self.inline.append(self._rx(name, rel, call, f, fn))

    def _rx(self, name, rel, call, f, fn="compile"):
        pat = call.args[0] if call.args else None
        tmpl = self.folder.fold(rel, pat, f) if pat is not None else [Hole(call)]
        flag_expr = None
        nflagpos = {"compile": 1, "match": 2, "search": 2, "fullmatch": 2, "split": 3, "findall": 2, "finditer": 2, "sub": 4, "subn": 4}[fn]
        if len(call.args) > nflagpos:
            flag_expr = call.args[nflagpos]
        for kw in call.keywords:
            if kw.arg == "flags":
                flag_expr = kw.value
        flags = self.folder.flags(rel, flag_expr)
        rx = Rx(name, tmpl, flags, rel, call, f)
        rx.fn = fn
        return rx

    def all(self):
        return list(self.named.values()) + self.inline

    def fregex_ref(self, rel, e):
        """Name of the FRegex pattern an expression denotes (FRegex.X), else None."""
        if isinstance(e, ast.Attribute) and isinstance(e.value, ast.Name) and e.attr in self.named:
            imp = self.m.imports.get(rel, {}).get(e.value.id)
            base = e.value.id
            if base == "FRegex" or (imp and imp[0] == "sym" and imp[2] in ("FRegex", "FortranRegularExpressions")):
                return e.attr
        return None

    def use_sites(self):
        """[(func, call node, method, pattern name)] for FRegex.X.<method>(...)
        and re.<fn>(FRegex.X, ...)"""
        out = []
        for q, f in self.m.funcs.items():
            for n in self.m.walk_own(f.node):
                if not isinstance(n, ast.Call):
                    continue
                if isinstance(n.func, ast.Attribute):
                    nm = self.fregex_ref(f.rel, n.func.value)
                    if nm:
                        out.append((f, n, n.func.attr, nm))
                        continue
                fn = self._re_call(f.rel, n)
                if fn and n.args:
                    nm = self.fregex_ref(f.rel, n.args[0])
                    if nm:
                        out.append((f, n, fn, nm))
        return out


def mandatory_nonspace(sub):
    """Does every match of the pattern contain at least one non-blank character
    (a mandatory atom that cannot be a space/tab)?"""
    for op, av in items(sub):
        if op is C.LITERAL:
            if not chr(av).isspace():
                return True
        elif op is C.IN:
            cs = class_chars(av)
            if cs is not None and not any(c.isspace() for c in cs):
                return True
            if cs is None and all(o2 is C.CATEGORY and a2 in (C.CATEGORY_WORD, C.CATEGORY_DIGIT) or o2 in (C.LITERAL, C.RANGE) and not (o2 is C.LITERAL and chr(a2).isspace()) for o2, a2 in av):
                return True
        elif op in REPEATS:
            if av[0] >= 1 and mandatory_nonspace(av[2]):
                return True
        elif op is C.SUBPATTERN:
            if mandatory_nonspace(av[3]):
                return True
        elif op is C.BRANCH:
            if all(mandatory_nonspace(alt) for alt in av[1]):
                return True
    return False


# ---------------------------------------------------- ASCII first-set algebra
_ASCII = [chr(i) for i in range(128)]
_CAT = {
    C.CATEGORY_DIGIT: frozenset(c for c in _ASCII if c.isdigit()),
    C.CATEGORY_NOT_DIGIT: frozenset(c for c in _ASCII if not c.isdigit()),
    C.CATEGORY_SPACE: frozenset(c for c in _ASCII if c.isspace()),
    C.CATEGORY_NOT_SPACE: frozenset(c for c in _ASCII if not c.isspace()),
    C.CATEGORY_WORD: frozenset(c for c in _ASCII if c.isalnum() or c == "_"),
    C.CATEGORY_NOT_WORD: frozenset(c for c in _ASCII if not (c.isalnum() or c == "_")),
}
ALL_ASCII = frozenset(_ASCII)


def atom_chars(op, av, ic=False):
    """ASCII characters a single-character atom can match."""
    if op is C.LITERAL:
        ch = chr(av)
        s = {ch.lower(), ch.upper()} if ic else {ch}
        return frozenset(s) & ALL_ASCII or frozenset(s)
    if op is C.NOT_LITERAL:
        return ALL_ASCII - {chr(av)}
    if op is C.ANY:
        return ALL_ASCII - {"\n"}
    if op is C.IN:
        neg = False
        out = set()
        for o2, a2 in av:
            if o2 is C.NEGATE:
                neg = True
            elif o2 is C.LITERAL:
                out.add(chr(a2))
            elif o2 is C.RANGE:
                out |= {chr(c) for c in range(a2[0], min(a2[1], 127) + 1)}
            elif o2 is C.CATEGORY:
                out |= _CAT.get(a2, ALL_ASCII)
        if ic:
            out |= {c.lower() for c in out} | {c.upper() for c in out}
        return frozenset(ALL_ASCII - out if neg else out)
    return None


def first_chars(sub, ic=False):
    """(set of ASCII first characters, nullable) of a sequence."""
    out = set()
    for op, av in items(sub):
        if op in ZERO_WIDTH:
            continue
        fs, nullable = _first1(op, av, ic)
        out |= fs
        if not nullable:
            return frozenset(out), False
    return frozenset(out), True


def _first1(op, av, ic):
    a = atom_chars(op, av, ic)
    if a is not None:
        return a, False
    if op in REPEATS:
        fs, nl = first_chars(av[2], ic)
        return fs, nl or av[0] == 0
    if op is C.SUBPATTERN:
        return first_chars(av[3], ic)
    if op is C.ATOMIC_GROUP:
        return first_chars(av, ic)
    if op is C.BRANCH:
        out, nl = set(), False
        for alt in av[1]:
            fs, n2 = first_chars(alt, ic)
            out |= fs
            nl = nl or n2
        return frozenset(out), nl
    if op is C.GROUPREF_EXISTS:
        out, nl = set(), False
        for alt in (av[1], av[2]):
            if alt is None:
                nl = True
                continue
            fs, n2 = first_chars(alt, ic)
            out |= fs
            nl = nl or n2
        return frozenset(out), nl
    return ALL_ASCII, True


def ambiguous_nested_repeats(sub, ic=False):
    """Unbounded repetition nested in an unbounded repetition such that one
    input can be split between the inner and the outer loop in many ways:
    (X*)*  /  (X+)*  /  (X+ Y*)* with first(Y) or first(X) overlapping first(X).
    Returns descriptions (empty list = none)."""
    found = []

    def unbounded(av):
        return av[1] is C.MAXREPEAT

    def scan_body(body, outer_desc):
        seq = items(body)
        for i, (op, av) in enumerate(seq):
            if op in REPEATS and unbounded(av):
                fs_inner, _ = first_chars(av[2], ic)
                # what may follow the inner loop inside one outer iteration
                rest_fs, rest_null = first_chars(seq[i + 1:], ic) if seq[i + 1:] else (frozenset(), True)
                follow = set(rest_fs)
                if rest_null:
                    # ... or the next outer iteration starts
                    fs_body, _ = first_chars(seq, ic)
                    # the prefix before the inner loop must be nullable for the
                    # next iteration to begin with the inner loop's characters
                    pre_fs, pre_null = first_chars(seq[:i], ic) if seq[:i] else (frozenset(), True)
                    follow |= set(pre_fs)
                    if pre_null:
                        follow |= set(fs_inner)
                if fs_inner & follow:
                    found.append(f"unbounded repetition nested in {outer_desc}: the same characters ({''.join(sorted(fs_inner & follow))[:12]!r}) can be consumed by the inner loop or by what follows it")
            elif op is C.SUBPATTERN:
                scan_body(av[3], outer_desc)
            elif op is C.BRANCH:
                for alt in av[1]:
                    scan_body(alt, outer_desc)

    def rec(seq):
        for op, av in items(seq):
            if op in REPEATS:
                if unbounded(av):
                    scan_body(av[2], "an unbounded repetition")
                rec(av[2])
            elif op is C.SUBPATTERN:
                rec(av[3])
            elif op is C.BRANCH:
                for alt in av[1]:
                    rec(alt)
            elif op in (C.ASSERT, C.ASSERT_NOT):
                rec(av[1])
            elif op is C.ATOMIC_GROUP:
                rec(av)

    rec(sub)
    return found
