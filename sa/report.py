"""Rule instances, verdicts, triage, known findings, evidence (DESIGN.md 2.6, 5)."""
from __future__ import annotations

import json
import os
import sys
import time

from .model import AnalysisError

VERIF = os.path.dirname(os.path.dirname(os.path.abspath(__file__)))


class Inst:
    __slots__ = ("rule", "where", "stmt", "loc", "verdict", "msg", "detail")

    def __init__(self, rule, where, stmt, loc, verdict, msg="", detail=None):
        self.rule = rule
        self.where = where  # qualname / pattern name / table name
        self.stmt = stmt  # normalised construct text
        self.loc = loc  # file:line (for the reader only)
        self.verdict = verdict  # ok | violation | undecided | observation
        self.msg = msg
        self.detail = detail or {}

    def key(self):
        return (self.rule, self.where, self.stmt)

    def as_dict(self):
        d = {"rule": self.rule, "where": self.where, "construct": self.stmt, "loc": self.loc, "verdict": self.verdict}
        if self.msg:
            d["msg"] = self.msg
        if self.detail:
            d["detail"] = self.detail
        return d


class Run:
    def __init__(self, prop, tier="quick", repo="/repo", seed=0, quiet=False):
        self.prop = prop
        self.tier = tier
        self.repo = repo
        self.seed = seed
        self.quiet = quiet
        self.t0 = time.time()
        self.insts: list[Inst] = []
        self.floors = {}  # rule -> (min instances, confirmed count)
        self.rule_doc = {}  # rule -> one-line statement
        self.controls = {}  # rule -> bool (positive control fired)
        self.notes = []
        self.assumptions = []
        self.census = {}
        self.selftest = None
        self.triage = self._load_triage()

    # -- recording ---------------------------------------------------------
    def rule(self, rid, doc, floor=1, confirmed=None):
        self.rule_doc[rid] = doc
        self.floors[rid] = (floor, confirmed if confirmed is not None else floor)

    def ok(self, rule, where, stmt, loc, msg="", **detail):
        self.insts.append(Inst(rule, where, stmt, loc, "ok", msg, detail))

    def violation(self, rule, where, stmt, loc, msg, **detail):
        t = self.triage.get((rule, where, stmt))
        if t is not None:
            self.insts.append(Inst(rule, where, stmt, loc, "ok", "triaged: " + t, detail))
            return
        self.insts.append(Inst(rule, where, stmt, loc, "violation", msg, detail))

    def undecided(self, rule, where, stmt, loc, msg="", **detail):
        self.insts.append(Inst(rule, where, stmt, loc, "undecided", msg, detail))

    def observe(self, rule, where, stmt, loc, msg="", **detail):
        self.insts.append(Inst(rule, where, stmt, loc, "observation", msg, detail))

    def control(self, rule, fired: bool):
        self.controls[rule] = fired

    def _load_triage(self):
        out = {}
        d = os.path.join(VERIF, "triage")
        if os.path.isdir(d):
            for fn in sorted(os.listdir(d)):
                if fn.endswith(".json"):
                    rule = fn[:-5]
                    with open(os.path.join(d, fn)) as fh:
                        for e in json.load(fh):
                            out[(rule, e["qualname"], e["statement"])] = e["reason"]
        return out

    # -- finishing ---------------------------------------------------------
    def finish(self):
        known = []
        kf_path = os.path.join(VERIF, "known_findings.json")
        if os.path.exists(kf_path):
            with open(kf_path) as fh:
                kf = json.load(fh)
            known = [k for k in kf.get("findings", []) if k.get("property") == self.prop]
        kmap = {(k["rule"], k["key"]["qualname"], k["key"]["statement"]): k for k in known}

        per_rule = {}
        for rid in self.rule_doc:
            per_rule[rid] = {"doc": self.rule_doc[rid], "instances": 0, "ok": 0, "violation": 0, "undecided": 0, "observation": 0, "floor": self.floors[rid][0], "confirmed_by_hand": self.floors[rid][1]}
        for i in self.insts:
            pr = per_rule.setdefault(i.rule, {"doc": "", "instances": 0, "ok": 0, "violation": 0, "undecided": 0, "observation": 0, "floor": 0, "confirmed_by_hand": 0})
            if i.verdict != "observation":
                pr["instances"] += 1
            pr[i.verdict] += 1

        # vacuity guard
        problems = []
        # A rule that matches fewer sites than confirmed by hand *without noticing* has become
        # vacuous: analysis error.  A rule that says UNDECIDED for a shape it does not
        # recognise has noticed: that clause is reported as not decided on this tree (no
        # alarm - a refactoring must not raise one), the other rules still decide theirs.
        notes = []
        for rid, pr in per_rule.items():
            if pr["undecided"] and (pr["instances"] < pr["floor"] or pr["undecided"] == pr["instances"]):
                notes.append(f"rule {rid}: not decided on this tree ({pr['undecided']} of {pr['instances']} instances have a shape the rule does not recognise)")
                pr["not_decided"] = True
            elif pr["instances"] < pr["floor"]:
                problems.append(f"rule {rid}: {pr['instances']} instances, floor {pr['floor']} (confirmed by hand: {pr['confirmed_by_hand']}) - the rule has become vacuous")
        decided = [rid for rid, pr in per_rule.items() if pr["instances"] and not pr.get("not_decided")]
        if per_rule and not decided and not problems:
            problems.append("no rule of this property decides anything on this tree")
        for n_ in notes:
            print(f"RULE-UNDECIDED property={self.prop} {n_}")
        self.notes.extend(notes)
        for rid, fired in self.controls.items():
            if not fired:
                problems.append(f"rule {rid}: positive control not flagged")
        if problems:
            for p in problems:
                print(f"ANALYSIS-ERROR property={self.prop} {p}")
            self._write_evidence(per_rule, [], [], problems)
            return 2

        viols, knowns = [], []
        for i in self.insts:
            if i.verdict == "violation":
                if i.key() in kmap:
                    knowns.append((i, kmap[i.key()]))
                else:
                    viols.append(i)
        vdir = os.path.join(VERIF, "evidence", "violations")
        replay_paths = []
        if viols:
            os.makedirs(vdir, exist_ok=True)
        for n, i in enumerate(viols, 1):
            p = os.path.join(vdir, f"{self.prop}-{n}.json")
            with open(p, "w") as fh:
                json.dump({"property": self.prop, **i.as_dict(), "repo": self.repo}, fh, indent=1, default=str)
            replay_paths.append(p)
        if not self.quiet:
            for rid in sorted(per_rule):
                pr = per_rule[rid]
                print(f"{rid:9s} instances={pr['instances']:3d} ok={pr['ok']:3d} undecided={pr['undecided']} violations={pr['violation']}  {pr['doc']}")
            for i in self.insts:
                if i.verdict == "undecided":
                    print(f"UNDECIDED {i.loc} {i.rule} {i.where} :: {i.stmt} -- {i.msg}")
                elif i.verdict == "observation":
                    print(f"OBSERVATION {i.loc} {i.rule} {i.where} :: {i.stmt} -- {i.msg}")
        for i, k in knowns:
            print(f"KNOWN-FINDING: property={self.prop} {i.rule} {i.where} :: {i.stmt} -- {k.get('what', i.msg)}")
        for i, p in zip(viols, replay_paths):
            print(f"{i.loc}  {i.rule}  {i.where}  {i.stmt}  -- {i.msg}")
            print(f"VIOLATION property={self.prop} replay={p}")
        self._write_evidence(per_rule, viols, knowns, [])
        return 1 if viols else 0

    def _write_evidence(self, per_rule, viols, knowns, problems):
        counted = [i for i in self.insts if i.verdict != "observation"]
        distinct = {i.key() for i in counted}
        obligations = len(counted)
        discharged = sum(1 for i in counted if i.verdict == "ok")
        samples = []
        seen_rules = set()
        for i in self.insts:
            if i.rule not in seen_rules and i.verdict in ("ok", "violation"):
                seen_rules.add(i.rule)
                samples.append(i.as_dict())
        for i in self.insts:
            if i.verdict in ("violation", "undecided") and len(samples) < 40 and i.as_dict() not in samples:
                samples.append(i.as_dict())
        ev = {
            "property_id": self.prop,
            "tier": self.tier,
            "seed": int(self.seed),
            "level": "other",
            "coverage": {
                "explanation": (
                    "Static analysis of the Python source under " + self.repo + "/fortls (syntax trees, resolved call graph, "
                    "per-function control flow with dominating facts, regex syntax trees). Each rule instance is one "
                    "construct of the current tree (call site, statement, table entry, pattern, path) with an obligation; "
                    "'ok' = obligation discharged on every path/instance, 'undecided' = implementation shape not recognised "
                    "(no verdict). Decides the named structural clauses of the property, not the behaviour as a whole."
                ),
                "evaluations": max(1, obligations),
                "distinct_nontrivial": len(distinct),
                "rule": "one evaluation per (rule, construct) instance found in the current tree; distinct = distinct (rule, qualname, normalised construct) keys; all carry an obligation",
                "obligations": obligations,
                "discharged": discharged,
                "undecided": sum(1 for i in counted if i.verdict == "undecided"),
                "exhaustive": True,
                "samples": samples[:40] or [{"note": "no instances"}],
                "per_rule": per_rule,
                "observations": [i.as_dict() for i in self.insts if i.verdict == "observation"][:30],
                "known_findings_printed": [k.get("what", "") for _, k in knowns],
                "positive_controls": self.controls,
                "model_census": self.census,
                "analysis_errors": problems,
            },
            "assumptions": [
                "CPython's ast and re._parser modules (the interpreter fortls runs on) give the syntax trees",
                "call resolution approximations of DESIGN 2.2 (by-name edges are may-edges)",
                "exceptions: every statement containing a call/subscript may raise any Exception; BaseException-only raises are outside the premises",
            ] + self.assumptions,
            "wall_s": round(time.time() - self.t0, 3),
            "violations": len(viols),
        }
        if self.selftest is not None:
            ev["coverage"]["checker_validation"] = self.selftest
        if self.notes:
            ev["coverage"]["notes"] = self.notes
        os.makedirs(os.path.join(VERIF, "evidence"), exist_ok=True)
        out = os.environ.get("VERIF_EVIDENCE_DIR") or os.path.join(VERIF, "evidence")
        os.makedirs(out, exist_ok=True)
        with open(os.path.join(out, f"{self.prop}.json"), "w") as fh:
            json.dump(ev, fh, indent=1, default=str)


class Ctx:
    """Lazily built shared engine state for one check invocation."""

    def __init__(self, repo):
        from .model import Model

        self.repo = repo
        self.m = Model(repo)
        from .cfg import STR_TOTAL_METHODS
        from .model import AnalysisError

        clash = sorted(f.qual for f in self.m.funcs.values() if f.cls and f.name in STR_TOTAL_METHODS)
        if clash:
            raise AnalysisError(f"engine assumption broken: {clash} shadow str methods that the nullability analysis treats as never returning None")
        self._r = self._e = self._p = None
        self._cfg = {}
        self._facts = {}

    @property
    def r(self):
        if self._r is None:
            from .calls import Resolver

            self._r = Resolver(self.m)
        return self._r

    @property
    def e(self):
        if self._e is None:
            from .effects import Effects

            self._e = Effects(self.m, self.r)
        return self._e

    @property
    def p(self):
        if self._p is None:
            from .rex import Patterns

            self._p = Patterns(self.m)
        return self._p

    def cfg(self, f):
        from .cfg import CFG

        if f.qual not in self._cfg:
            self._cfg[f.qual] = CFG(f.node)
        return self._cfg[f.qual]

    def facts(self, f, interproc=True):
        """Dominating facts of function f (with call summaries when interproc)."""
        from .cfg import Facts

        key = (f.qual, interproc)
        if key not in self._facts:
            ci = self.call_info(f) if interproc else None
            self._facts[key] = Facts(self.cfg(f), call_info=ci, is_class=lambda nm: nm in self.m.cname)
        return self._facts[key]

    def call_info(self, f, _stack=()):
        """call -> (assigned attrs, mutated attrs, established non-None fields,
        (attrs written when the result is false), attrs never assigned None)"""
        import ast

        from .model import access_path

        attrs = self.e.attr_sets()
        nno = self.e.nonnull_only_attrs()
        r = self.r
        cache = {}

        def info(call):
            k = id(call)
            if k in cache:
                return cache[k]
            kind, targets = r.resolve_call(f, call)
            res = None
            if kind not in ("external", "unknown") and targets:
                a, mu = set(), set()
                for t in targets:
                    ta, tm = attrs.get(t, (set(), set()))
                    a |= ta
                    mu |= tm
                est = set()
                if kind in ("typed", "super", "by_name") and isinstance(call.func, ast.Attribute):
                    recv = access_path(call.func.value)
                    if recv:
                        common = None
                        for t in targets:
                            s_ = self.establishes(t, _stack)
                            common = s_ if common is None else (common & s_)
                        for fld in common or ():
                            est.add(("nonnull", f"{recv}.{fld}"))
                fa, fm = set(), set()
                for t in targets:
                    x = self.falsy_writes(t)
                    fa |= x[0]
                    fm |= x[1]
                nn = None
                for t in targets:
                    x = nno.get(t, set()) | (a - attrs.get(t, (set(), set()))[0])
                    nn = x if nn is None else (nn & x)
                res = (a, mu, est, (fa, fm), nn or set())
            cache[k] = res
            return res

        return info

    def falsy_writes(self, qual):
        """(assigned attrs, mutated attrs) a function can have written when it
        returns a false value (None / False / falls off the end): result-
        conditioned summary, a path query on the callee's CFG."""
        import ast

        if not hasattr(self, "_fw"):
            self._fw = {}
        if qual in self._fw:
            return self._fw[qual]
        attrs = self.e.attr_sets()
        full = attrs.get(qual, (set(), set()))
        self._fw[qual] = full  # recursion: be conservative
        f = self.m.funcs[qual]
        cfg = self.cfg(f)
        # falsy exits: `return <const falsy>` nodes, bare return, fall-through
        exits = set()
        for p, lab in cfg.nodes[cfg.exit.id].preds:
            n = cfg.nodes[p]
            if lab and lab[0] == "return":
                v = n.ast.value if isinstance(n.ast, ast.Return) else None
                if v is None or (isinstance(v, ast.Constant) and not v.value):
                    exits.add(p)
                elif isinstance(v, ast.Constant) and v.value:
                    continue
                else:
                    exits.add(p)  # unknown value: may be false
            else:
                exits.add(p)
        # backward reachability from the falsy exits
        back = set()
        stack = list(exits)
        while stack:
            i = stack.pop()
            if i in back:
                continue
            back.add(i)
            for p, lab in cfg.nodes[i].preds:
                if lab and lab[0] == "exc":
                    continue
                stack.append(p)
        a, mu = set(), set()
        from .cfg import MUTATORS

        for i in back:
            n = cfg.nodes[i]
            if n.ast is None or n.kind not in ("stmt", "test", "for"):
                continue
            roots = [n.ast] if not isinstance(n.ast, ast.With) else [x.context_expr for x in n.ast.items]
            if n.kind == "for":
                continue
            for r in roots:
                for x in ast.walk(r):
                    if isinstance(x, (ast.Assign, ast.AugAssign, ast.AnnAssign)):
                        tg = x.targets if isinstance(x, ast.Assign) else [x.target]
                        for t in tg:
                            for y in ([t] if not isinstance(t, (ast.Tuple, ast.List)) else t.elts):
                                if isinstance(y, ast.Attribute):
                                    a.add(y.attr)
                                elif isinstance(y, ast.Subscript) and isinstance(y.value, ast.Attribute):
                                    mu.add(y.value.attr)
                    elif isinstance(x, ast.Call):
                        if isinstance(x.func, ast.Attribute) and x.func.attr in MUTATORS and isinstance(x.func.value, ast.Attribute):
                            mu.add(x.func.value.attr)
                        k, tg = self.r.resolve_call(f, x)
                        if k not in ("external", "unknown"):
                            for t in tg:
                                ta, tm = attrs.get(t, (set(), set()))
                                a |= ta
                                mu |= tm
        self._fw[qual] = (a, mu)
        return self._fw[qual]

    def establishes(self, qual, _stack=()):
        """Fields F such that `self.F` is non-None at every normal exit of the
        method (establishing-call summary)."""
        if not hasattr(self, "_est"):
            self._est = {}
        if qual in self._est:
            return self._est[qual]
        if qual in _stack:
            return set()
        f = self.m.funcs[qual]
        out = set()
        if f.cls and f.params:
            selfn = f.params[0]
            from .cfg import Facts

            cfg = self.cfg(f)
            F = Facts(cfg, call_info=self.call_info(f, _stack + (qual,)), is_class=lambda nm: nm in self.m.cname)
            ex = F.IN.get(cfg.exit.id)
            if ex is not None:
                for fact in ex:
                    if fact[0] == "nonnull" and fact[1].startswith(selfn + ".") and fact[1].count(".") == 1:
                        out.add(fact[1].split(".", 1)[1])
        if not _stack:
            self._est[qual] = out
        return out


def run_property(prop, module, tier, repo, seed):
    """Run a property's rules; returns exit code."""
    R = Run(prop, tier, repo, seed)
    try:
        ctx = Ctx(repo)
        R.census = dict(ctx.m.census())
        R.census["normalisation"] = {"inlined_or_folded_sites": len(ctx.m.inlined), "helpers_removed": list(ctx.m.dropped_helpers)[:40], "sites": [f"{a} -> {b}:{c}" for a, b, c in ctx.m.inlined[:40]]}
        if getattr(ctx.m, "normalisation_error", None):
            R.census["normalisation"]["error"] = ctx.m.normalisation_error
            print(f"NORMALISATION-SKIPPED property={prop} the normalisation pass failed on this tree; it is analysed as written ({ctx.m.normalisation_error.strip().splitlines()[-1][:120]})")
        if ctx.m.inlined:
            print(f"NORMALISED property={prop} {len(ctx.m.inlined)} call sites of helpers/constants that are not on the pinned tree were inlined (sa/inline.py); helpers removed from the model: {len(ctx.m.dropped_helpers)}")
        module.run(ctx, R)
        if tier == "thorough" and hasattr(module, "thorough"):
            module.thorough(ctx, R)
        if tier == "thorough" and not os.environ.get("VERIF_NO_VALIDATE"):
            # checker validation: every registered mutant of this property must be
            # flagged and every benign twin must stay silent, on scratch copies of
            # the tree under analysis (reported; never changes the verdict on the tree)
            sys.path.insert(0, VERIF)
            from selftest.run import validate

            s = validate(prop, repo, jobs=int(os.environ.get("VERIF_JOBS", "16")), seeds=not os.environ.get("VERIF_NO_SEEDS"))
            if "error" in s:
                R.selftest = {"error": s["error"]}
                print(f"CHECKER-VALIDATION property={prop} not run: {s['error']}")
            else:
                R.selftest = {k: s[k] for k in ("mutants", "mutants_detected", "twins", "twins_silent", "skipped", "failures")}
                R.selftest["variants_analysed"] = s["mutants"] + s["twins"]
                R.selftest["results"] = [{"name": r["name"], "kind": r["kind"], "status": r["status"], "info": r["info"][:200]} for r in s["results"]]
                print(f"CHECKER-VALIDATION property={prop} mutants {s['mutants_detected']}/{s['mutants']} flagged, twins {s['twins_silent']}/{s['twins']} silent, skipped {s['skipped']}")
                for fl in s["failures"]:
                    print(f"CHECKER-VALIDATION-FAILED property={prop} {fl[:200]}")
        R.census["calls_by_resolution"] = ctx.r.census() if ctx._r is not None else {}
        return R, R.finish()
    except AnalysisError as e:
        print(f"ANALYSIS-ERROR property={prop} {e}")
        R._write_evidence({}, [], [], [str(e)])
        return R, 2
