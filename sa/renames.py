"""Normalisation pass: undo renames, moves and lifts of functions the rules know by name.

`sa/known_funcs.json` maps every function of the pinned tree to a fingerprint of
its body (a multiset of statement hashes).  When a known function is missing
from the tree under analysis and a function that did not exist on the pinned
tree has (nearly) the same body, the new function is the old one under another
name / in another place:

* same kind (method -> method of the same class, module function -> module
  function anywhere in the package, nested -> nested in the same parent): the
  definition and every reference get the old name back;
* a nested function lifted to module level or turned into a method of the
  enclosing class: it is put back into its old parent (the rules look for it
  there), calls are re-pointed.

Module-level constants and class attributes (the FRegex patterns) are matched by
value in the same way.  Nothing of this happens on the pinned tree.  The pass
only changes names/places of definitions whose bodies match - it cannot make a
behavioural difference disappear, because a changed body is a changed
fingerprint (the match needs >= 60 % of the statements to be identical, and the
rules then look at the actual, current body)."""
from __future__ import annotations

import ast
import hashlib
import json
import os
from collections import Counter

HERE = os.path.dirname(os.path.abspath(__file__))


# ----------------------------------------------------------------- fingerprints
def _own_stmts(fn):
    """all statements of the function's body, at any depth, except inside nested defs/classes"""

    def rec(stmts):
        for s in stmts:
            yield s
            if isinstance(s, (ast.FunctionDef, ast.AsyncFunctionDef, ast.ClassDef)):
                continue
            for fld in ("body", "orelse", "finalbody"):
                b_ = getattr(s, fld, None)
                if isinstance(b_, list) and b_ and isinstance(b_[0], ast.stmt):
                    yield from rec(b_)
            for h in getattr(s, "handlers", []) or []:
                yield from rec(h.body)
            for c in getattr(s, "cases", []) or []:
                yield from rec(c.body)

    yield from rec(fn.body)


class _Norm(ast.NodeTransformer):
    """the function's own name (recursive calls) is immaterial"""

    def __init__(self, own):
        self.own = own

    def visit_Name(self, n):
        if n.id == self.own:
            return ast.copy_location(ast.Name(id="__self_fn__", ctx=n.ctx), n)
        return n

    def visit_Attribute(self, n):
        self.generic_visit(n)
        if n.attr == self.own:
            return ast.copy_location(ast.Attribute(value=n.value, attr="__self_fn__", ctx=n.ctx), n)
        return n


def fingerprint(fn):
    import copy

    hs = []
    for st in _own_stmts(fn):
        # head of compound statements only (their bodies are statements of their own)
        c = copy.copy(st)
        for fld in ("body", "orelse", "finalbody", "handlers"):
            if hasattr(c, fld):
                setattr(c, fld, [])
        if isinstance(c, (ast.FunctionDef, ast.AsyncFunctionDef, ast.ClassDef)):
            continue
        c = _Norm(fn.name).visit(copy.deepcopy(c))
        if isinstance(c, ast.Expr) and isinstance(c.value, ast.Constant) and isinstance(c.value.value, str):
            continue  # docstrings
        hs.append(hashlib.md5(ast.dump(c).encode()).hexdigest()[:10])
    return hs


def similarity(a, b):
    ca, cb = Counter(a), Counter(b)
    inter = sum((ca & cb).values())
    return inter / max(1, max(len(a), len(b)))


def collect_functions(tree, rel):
    """[(qual, node, holder node, class qual or None, parent function qual or None)]"""
    out = []

    def rec(node, prefix, cls, parent):
        for ch in ast.iter_child_nodes(node):
            if isinstance(ch, (ast.FunctionDef, ast.AsyncFunctionDef)):
                q = f"{rel}:{prefix}{ch.name}"
                out.append((q, ch, node, cls if parent is None else None, parent))
                rec(ch, prefix + ch.name + ".", cls, q)
            elif isinstance(ch, ast.ClassDef):
                rec(ch, prefix + ch.name + ".", f"{rel}:{prefix}{ch.name}", None)
            else:
                rec(ch, prefix, cls, parent)

    rec(tree, "", None, None)
    return out


def collect_constants(tree, rel):
    """{qual: (value dump hash, assign node, holder)} for module-level and class-level `NAME = value`"""
    out = {}

    def scan(body, prefix, holder):
        for st in body:
            if isinstance(st, ast.Assign) and len(st.targets) == 1 and isinstance(st.targets[0], ast.Name):
                out[f"{rel}:{prefix}{st.targets[0].id}"] = (hashlib.md5(ast.dump(st.value).encode()).hexdigest()[:12], st, holder)
            elif isinstance(st, ast.AnnAssign) and isinstance(st.target, ast.Name) and st.value is not None:
                out[f"{rel}:{prefix}{st.target.id}"] = (hashlib.md5(ast.dump(st.value).encode()).hexdigest()[:12], st, holder)
            elif isinstance(st, ast.ClassDef):
                scan(st.body, prefix + st.name + ".", st)

    scan(tree.body, "", tree)
    return out


def build_known(repo):
    funcs, consts = {}, {}
    pkg = os.path.join(repo, "fortls")
    for d, dirs, fs in os.walk(pkg):
        dirs.sort()
        for f in sorted(fs):
            if f.endswith(".py"):
                p = os.path.join(d, f)
                rel = os.path.relpath(p, repo).replace(os.sep, "/")
                tree = ast.parse(open(p, encoding="utf-8").read())
                for q, node, holder, cls, parent in collect_functions(tree, rel):
                    a = node.args
                    funcs[q] = {"fp": fingerprint(node), "np": len(a.posonlyargs + a.args + a.kwonlyargs)}
                for q, (h, st, holder) in collect_constants(tree, rel).items():
                    consts[q] = h
    return funcs, consts


# ------------------------------------------------------------------- the pass
class _RenameRefs(ast.NodeTransformer):
    def __init__(self, names, attrs):
        self.names, self.attrs = names, attrs  # new -> old

    def visit_Name(self, n):
        if n.id in self.names:
            n.id = self.names[n.id]
        return n

    def visit_Attribute(self, n):
        self.generic_visit(n)
        if n.attr in self.attrs:
            n.attr = self.attrs[n.attr]
        return n

    def visit_alias(self, n):
        if n.name in self.names:
            n.name = self.names[n.name]
        if n.asname in self.names:
            n.asname = self.names[n.asname]
        return n

    def visit_FunctionDef(self, n):
        self.generic_visit(n)
        return n

    def visit_keyword(self, n):
        self.generic_visit(n)
        return n


def undo_renames(mods, known_funcs, known_consts):
    """mutates the module trees; returns a list of (what, old, new) records"""
    report = []
    cur = {}
    for rel, tree in mods.items():
        for q, node, holder, cls, parent in collect_functions(tree, rel):
            cur[q] = (node, holder, cls, parent, rel)
    missing = [q for q in known_funcs if q not in cur]
    new = [q for q in cur if q not in known_funcs]
    if missing and new:
        fps = {q: fingerprint(cur[q][0]) for q in new}
        cands = []
        for m in missing:
            fm = known_funcs[m]["fp"]
            if not fm:
                continue
            for q in new:
                s = similarity(fm, fps[q])
                if s >= 0.6 and (len(fm) >= 3 or s == 1.0):
                    cands.append((s, m, q))
        cands.sort(reverse=True)
        used_m, used_q = set(), set()
        pairs = []
        for s, m, q in cands:
            if m in used_m or q in used_q:
                continue
            # ambiguity: another candidate for the same old/new with (almost) the same score
            if any(s2 >= s - 0.05 and ((m2 == m and q2 != q) or (q2 == q and m2 != m)) and m2 not in used_m and q2 not in used_q for s2, m2, q2 in cands if (m2, q2) != (m, q)):
                continue
            used_m.add(m)
            used_q.add(q)
            pairs.append((m, q, s))
        name_map, attr_map = {}, {}
        renest = []
        for m, q, s in pairs:
            node, holder, cls, parent, rel = cur[q]
            old_name = m.split(":")[1].split(".")[-1]
            old_rel = m.split(":")[0]
            old_prefix = m.split(":")[1].rsplit(".", 1)[0] if "." in m.split(":")[1] else ""
            old_parent_q = f"{old_rel}:{old_prefix}" if old_prefix else None
            new_name = node.name
            was_nested = old_parent_q in known_funcs if old_parent_q else False
            is_nested = parent is not None
            if was_nested and not is_nested:
                renest.append((m, q, old_parent_q))
            if new_name != old_name:
                if cls is not None:
                    attr_map[new_name] = old_name
                else:
                    name_map[new_name] = old_name
                    attr_map.setdefault(new_name, old_name)  # module.attr style uses
            report.append(("function", m, q, round(s, 2)))
        # names that are also used for something else in the package must not be rewritten
        defined_elsewhere = Counter()
        for q in cur:
            defined_elsewhere[q.split(":")[1].split(".")[-1]] += 1
        for nm in list(name_map):
            if defined_elsewhere[nm] > 1:
                name_map.pop(nm)
                attr_map.pop(nm, None)
        for nm in list(attr_map):
            if defined_elsewhere[nm] > 1:
                attr_map.pop(nm)
        if name_map or attr_map:
            for m, q, s in pairs:
                node = cur[q][0]
                old_name = m.split(":")[1].split(".")[-1]
                if node.name in name_map or node.name in attr_map:
                    node.name = old_name
            rr = _RenameRefs(name_map, attr_map)
            for tree in mods.values():
                rr.visit(tree)
        # put lifted nested functions back into their old parent (parents first: a doubly nested
        # function needs its own parent re-nested before it)
        renest.sort(key=lambda t: t[2].count("."))
        for m, q, old_parent_q in renest:
            node, holder, cls, parent, rel = cur[q]
            old_name = m.split(":")[1].split(".")[-1]
            parent_now = None
            for rel2, tree in mods.items():
                for q2, n2, h2, c2, p2 in collect_functions(tree, rel2):
                    if q2 == old_parent_q:
                        parent_now = (n2, rel2)
            if parent_now is None or parent_now[1] != rel:
                continue
            pnode = parent_now[0]
            uses_inside = any(isinstance(x, ast.Name) and x.id == old_name for x in ast.walk(pnode)) or any(isinstance(x, ast.Attribute) and x.attr == old_name for x in ast.walk(pnode))
            if not uses_inside:
                continue
            # used anywhere else? then it has to stay where it is
            used_elsewhere = False
            for rel2, tree in mods.items():
                for x in ast.walk(tree):
                    if (isinstance(x, ast.Name) and x.id == old_name and isinstance(x.ctx, ast.Load)) or (isinstance(x, ast.Attribute) and x.attr == old_name):
                        inside = any(x is y for y in ast.walk(pnode)) or any(x is y for y in ast.walk(node))
                        if not inside:
                            used_elsewhere = True
            if used_elsewhere:
                continue
            if node in holder.body:
                holder.body.remove(node)
                if not holder.body:
                    holder.body.append(ast.Pass())
            as_method = cls is not None
            if as_method:
                # method of the enclosing class: drop `self`, calls self.f(a) -> f(a)
                decs = {d.id for d in node.decorator_list if isinstance(d, ast.Name)}
                node.decorator_list = []
                if "staticmethod" not in decs and node.args.args:
                    node.args.args = node.args.args[1:]

                class Calls(ast.NodeTransformer):
                    def visit_Call(self, c):
                        self.generic_visit(c)
                        if isinstance(c.func, ast.Attribute) and c.func.attr == old_name and isinstance(c.func.value, ast.Name):
                            c.func = ast.copy_location(ast.Name(id=old_name, ctx=ast.Load()), c.func)
                        return c

                Calls().visit(pnode)
                Calls().visit(node)
            ins = 1 if (pnode.body and isinstance(pnode.body[0], ast.Expr) and isinstance(pnode.body[0].value, ast.Constant) and isinstance(pnode.body[0].value.value, str)) else 0
            pnode.body.insert(ins, node)
            report.append(("re-nested", m, old_parent_q, 1.0))
    # constants / class attributes
    curc = {}
    for rel, tree in mods.items():
        curc.update({q: (h, st, holder, rel) for q, (h, st, holder) in collect_constants(tree, rel).items()})
    missing_c = [q for q in known_consts if q not in curc]
    new_c = [q for q in curc if q not in known_consts]
    cname_map = {}
    for m in missing_c:
        hits = [q for q in new_c if curc[q][0] == known_consts[m]]
        holder_of = lambda q_: q_.split(":", 1)[1].rsplit(".", 1)[0] if "." in q_.split(":", 1)[1] else ""
        same_holder = [q for q in hits if holder_of(q) == holder_of(m)]
        hits = same_holder or hits
        if len(hits) == 1:
            q = hits[0]
            old = m.split(":")[1].split(".")[-1]
            newn = q.split(":")[1].split(".")[-1]
            if newn != old:
                cname_map[newn] = old
                st = curc[q][1]
                tgt = st.targets[0] if isinstance(st, ast.Assign) else st.target
                tgt.id = old
                report.append(("constant", m, q, 1.0))
    if cname_map:
        rr = _RenameRefs(cname_map, cname_map)
        for tree in mods.values():
            rr.visit(tree)
    for tree in mods.values():
        ast.fix_missing_locations(tree)
    return report


def weak_candidates(mods, known_funcs, threshold=0.25):
    """new functions that may be a known function under another name once their own new helpers
    are inlined into them: the inliner must not dissolve them into their callers"""
    cur = {}
    for rel, tree in mods.items():
        for q, node, holder, cls, parent in collect_functions(tree, rel):
            cur[q] = node
    missing = [q for q in known_funcs if q not in cur and known_funcs[q]["fp"]]
    out = set()
    if not missing:
        return out
    for q, node in cur.items():
        if q in known_funcs:
            continue
        fp = fingerprint(node)
        if any(similarity(known_funcs[m]["fp"], fp) >= threshold for m in missing):
            out.add(q)
    return out


def load_known():
    with open(os.path.join(HERE, "known_funcs.json")) as fh:
        kf = json.load(fh)
    with open(os.path.join(HERE, "known_consts.json")) as fh:
        kc = json.load(fh)
    return kf, kc


if __name__ == "__main__":
    import sys

    repo = sys.argv[1] if len(sys.argv) > 1 else "/repo"
    f, c = build_known(repo)
    json.dump(f, open(os.path.join(HERE, "known_funcs.json"), "w"), indent=0, sort_keys=True)
    json.dump(c, open(os.path.join(HERE, "known_consts.json"), "w"), indent=0, sort_keys=True)
    print(len(f), "functions,", len(c), "constants")
