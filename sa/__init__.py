"""Static-analysis engine for the fortls verification checks (see DESIGN.md section 2)."""
