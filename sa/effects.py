"""Write effects of functions (DESIGN.md 2.5)."""
from __future__ import annotations

import ast
from collections import defaultdict

from .calls import Resolver
from .cfg import MUTATORS
from .model import Func, Model, access_path

FRESH_CALLS = {"list", "dict", "set", "tuple", "sorted", "deque", "Counter", "str", "int", "frozenset", "defaultdict", "OrderedDict", "bytearray"}


class Write:
    __slots__ = ("func", "node", "root", "path", "kind", "via")

    def __init__(self, func, node, root, path, kind, via=()):
        self.func = func  # qual of the function containing the store
        self.node = node
        self.root = root  # 'self' | 'param:x' | 'global:x' | 'unknown'
        self.path = path  # attribute chain below the root, e.g. 'ast.parse_errors'
        self.kind = kind  # assign | mutate | item | del
        self.via = via  # call chain (qual, line) from the summarised function

    def key(self):
        return (self.func, id(self.node), self.root, self.path, self.kind)

    @property
    def attr(self):
        return self.path.split(".")[-1] if self.path else ""

    def __repr__(self):
        return f"<Write {self.root}.{self.path} {self.kind} in {self.func.split(':')[1]}:{getattr(self.node,'lineno',0)}>"


class Effects:
    def __init__(self, model: Model, res: Resolver):
        self.m = model
        self.r = res
        self._direct = {}
        self._roots = {}
        self._summary = None
        self._attrs = None
        self.transient = self._transient_classes()

    # ---------------------------------------------------------- local roots
    def _is_fresh_value(self, f: Func, v, depth=0):
        if isinstance(v, (ast.List, ast.Dict, ast.Set, ast.Tuple, ast.ListComp, ast.DictComp, ast.SetComp, ast.Constant, ast.JoinedStr, ast.GeneratorExp, ast.Compare)):
            return True
        if isinstance(v, ast.BinOp):
            return True  # new value (str/list concatenation, arithmetic)
        if isinstance(v, ast.Subscript) and isinstance(v.slice, ast.Slice):
            return True
        if isinstance(v, ast.IfExp):
            return self._is_fresh_value(f, v.body, depth) and self._is_fresh_value(f, v.orelse, depth)
        if isinstance(v, ast.Call):
            fn = v.func
            if isinstance(fn, ast.Name):
                if fn.id in FRESH_CALLS:
                    return True
                k, t = self.r.resolve_call(f, v)
                if k == "ctor":
                    return True
                if k in ("module", "import", "nested") and depth < 2:
                    return all(self._returns_fresh(q, depth + 1) for q in t) if t else False
                return False
            if isinstance(fn, ast.Attribute):
                if fn.attr in ("copy", "deepcopy", "lower", "upper", "strip", "split", "join", "format", "replace", "rstrip", "lstrip", "encode", "decode", "keys", "values", "items", "splitlines", "rsplit", "get_children", "findall", "finditer", "match", "search", "sub", "subn", "group", "groups"):
                    # str results / documented copies.  get_children returns copy.copy(...) lists
                    if fn.attr == "get_children":
                        return True
                    return True
                d = self.m.dotted(f.rel, fn)
                if d in ("copy.copy", "copy.deepcopy", "re.compile", "re.split", "re.sub", "re.findall", "os.path.join", "os.path.abspath", "os.path.dirname", "os.listdir"):
                    return True
                k, t = self.r.resolve_call(f, v)
                if k in ("typed", "import", "module", "super") and t and depth < 2:
                    return all(self._returns_fresh(q, depth + 1) for q in t)
        return False

    def _returns_fresh(self, q, depth):
        if not hasattr(self, "_rf"):
            self._rf, self._rf_busy = {}, set()
        if q in self._rf:
            return self._rf[q]
        if q in self._rf_busy:
            return False  # recursive producer: assume it may hand out shared objects
        self._rf_busy.add(q)
        try:
            r = self._returns_fresh_1(q, depth)
        finally:
            self._rf_busy.discard(q)
        if not self._rf_busy:
            self._rf[q] = r
        return r

    def _returns_fresh_1(self, q, depth):
        g = self.m.funcs[q]
        rets = [n for n in self.m.walk_own(g.node) if isinstance(n, ast.Return) and n.value is not None]
        if not rets:
            return True
        for r in rets:
            v = r.value
            vals = v.elts if isinstance(v, ast.Tuple) else [v]
            for x in vals:
                if isinstance(x, ast.Name):
                    if self.local_roots(g, x.id) != {"fresh"}:
                        return False
                elif not self._is_fresh_value(g, x, depth):
                    return False
        return True

    def local_roots(self, f: Func, name: str, _seen=None):
        """Roots a local/parameter name may alias: {'fresh'} | {'self','param:x',
        'global:x','unknown'} (union over its bindings)."""
        key = (f.qual, name)
        if key in self._roots:
            return self._roots[key]
        _seen = _seen or set()
        if key in _seen:
            return set()
        _seen = _seen | {key}
        out = set()
        if name in f.params:
            if f.cls and not f.parent and f.params and name == f.params[0] and not self._is_static(f):
                out.add("self")
            else:
                out.add(f"param:{name}")
        bound = False
        for n in self.m.walk_own(f.node):
            vals = []
            if isinstance(n, ast.Assign):
                for t in n.targets:
                    vals += self._match_target(t, name, n.value)
            elif isinstance(n, ast.AnnAssign) and n.value is not None:
                vals += self._match_target(n.target, name, n.value)
            elif isinstance(n, ast.AugAssign):
                if isinstance(n.target, ast.Name) and n.target.id == name:
                    vals.append(("aug", n.value))
            elif isinstance(n, (ast.For, ast.comprehension)):
                for t in self._names_in_target(n.target):
                    if t == name:
                        vals.append(("iter", n.iter))
            elif isinstance(n, ast.With):
                for it in n.items:
                    if it.optional_vars is not None and name in self._names_in_target(it.optional_vars):
                        vals.append(("val", it.context_expr))
            elif isinstance(n, ast.ExceptHandler) and n.name == name:
                out.add("fresh")
                bound = True
            elif isinstance(n, ast.NamedExpr) and isinstance(n.target, ast.Name) and n.target.id == name:
                vals.append(("val", n.value))
            for kind, v in vals:
                bound = True
                if v is None:
                    out.add("unknown")
                    continue
                if kind == "aug":
                    # x += <fresh> keeps x's roots; x += <nonfresh list> adds element aliases only
                    continue
                if kind == "iter":
                    out |= self._iter_roots(f, v, _seen)
                    continue
                if kind == "elem":
                    call, idx = v
                    if self._elem_fresh(f, call, idx):
                        out.add("fresh")
                    else:
                        out |= self.expr_roots(f, call, _seen)
                    continue
                out |= self.expr_roots(f, v, _seen)
        if not bound and not out:
            # enclosing function's local, module global or builtin
            if f.parent:
                out |= self.local_roots(self.m.funcs[f.parent], name, _seen)
            elif name in self.m.consts.get(f.rel, {}) or name in self.m.imports.get(f.rel, {}) or f"{f.rel}:{name}" in self.m.classes or f"{f.rel}:{name}" in self.m.funcs:
                out.add(f"global:{name}")
            else:
                out.add("unknown")
        elif f.parent and not bound and name not in f.params:
            out |= self.local_roots(self.m.funcs[f.parent], name, _seen)
        if len(out) > 1 and "fresh" in out:
            out.discard("fresh")
        self._roots[key] = out
        return out

    def _elem_fresh(self, f, call, idx):
        """Is element idx of the tuple returned by this call a fresh object?"""
        k, tg = self.r.resolve_call(f, call)
        if k not in ("nested", "module", "import", "typed") or not tg:
            return False
        if not hasattr(self, "_ef_busy"):
            self._ef_busy = set()
        for q in tg:
            if (q, idx) in self._ef_busy:
                continue  # recursive producer: decided by its other return sources
            self._ef_busy.add((q, idx))
            try:
                g = self.m.funcs[q]
                for r in (n for n in self.m.walk_own(g.node) if isinstance(n, ast.Return) and n.value is not None):
                    v = r.value
                    if not (isinstance(v, ast.Tuple) and idx < len(v.elts)):
                        return False
                    x = v.elts[idx]
                    if isinstance(x, ast.Name):
                        if self.local_roots(g, x.id) != {"fresh"}:
                            return False
                    elif not self._is_fresh_value(g, x):
                        return False
            finally:
                self._ef_busy.discard((q, idx))
        return True

    def _is_static(self, f):
        return any(isinstance(d, ast.Name) and d.id in ("staticmethod",) for d in f.node.decorator_list)

    @staticmethod
    def _names_in_target(t):
        if isinstance(t, ast.Name):
            return [t.id]
        if isinstance(t, (ast.Tuple, ast.List)):
            out = []
            for x in t.elts:
                out += Effects._names_in_target(x)
            return out
        if isinstance(t, ast.Starred):
            return Effects._names_in_target(t.value)
        return []

    def _match_target(self, t, name, value):
        if isinstance(t, ast.Name):
            return [("val", value)] if t.id == name else []
        if isinstance(t, (ast.Tuple, ast.List)):
            if isinstance(value, (ast.Tuple, ast.List)) and len(value.elts) == len(t.elts):
                out = []
                for a, b in zip(t.elts, value.elts):
                    out += self._match_target(a, name, b)
                return out
            names = [x.id if isinstance(x, ast.Name) else None for x in t.elts]
            if name in names and isinstance(value, ast.Call):
                return [("elem", (value, names.index(name)))]
            if name in self._names_in_target(t):
                return [("val", value)]
        return []

    def _iter_roots(self, f, it, _seen):
        # iterating over a fresh container of fresh things is rare; elements of
        # persistent containers are persistent
        if isinstance(it, ast.Call) and isinstance(it.func, ast.Name) and it.func.id in ("enumerate", "zip", "reversed", "sorted", "iter", "list"):
            out = set()
            for a in it.args:
                out |= self._iter_roots(f, a, _seen)
            return out or {"fresh"}
        if isinstance(it, ast.Call) and isinstance(it.func, ast.Name) and it.func.id == "range":
            return {"fresh"}
        if isinstance(it, ast.Call) and isinstance(it.func, ast.Attribute) and it.func.attr in ("items", "values", "keys", "copy"):
            return self._iter_roots(f, it.func.value, _seen)
        if isinstance(it, ast.Call) and isinstance(it.func, ast.Attribute) and it.func.attr in ("split", "finditer", "findall", "splitlines", "rsplit"):
            return {"fresh"}
        if isinstance(it, (ast.List, ast.Tuple, ast.Set)):
            out = set()
            for e in it.elts:
                out |= self.expr_roots(f, e, _seen)
            return out or {"fresh"}
        if isinstance(it, ast.Call):
            # elements of a returned container: persistent unless proven otherwise
            r = self.expr_roots(f, it, _seen)
            if r == {"fresh"}:
                # a fresh list may still hold persistent elements (get_children copies)
                if isinstance(it.func, ast.Attribute):
                    return self.expr_roots(f, it.func.value, _seen)
                return {"unknown"} if not self._elements_fresh(f, it) else {"fresh"}
            return r
        return self.expr_roots(f, it, _seen)

    def _elements_fresh(self, f, call):
        k, t = self.r.resolve_call(f, call)
        if k in ("external", "unknown") or not t:
            return True
        return False

    def expr_roots(self, f: Func, e, _seen=None):
        """Roots of the object an expression evaluates to."""
        if self._is_fresh_value(f, e):
            return {"fresh"}
        if isinstance(e, ast.Name):
            return self.local_roots(f, e.id, _seen)
        if isinstance(e, ast.Attribute):
            return self.expr_roots(f, e.value, _seen)
        if isinstance(e, ast.Subscript):
            return self.expr_roots(f, e.value, _seen)
        if isinstance(e, ast.Starred):
            return self.expr_roots(f, e.value, _seen)
        if isinstance(e, ast.IfExp):
            return self.expr_roots(f, e.body, _seen) | self.expr_roots(f, e.orelse, _seen)
        if isinstance(e, ast.BoolOp):
            out = set()
            for v in e.values:
                out |= self.expr_roots(f, v, _seen)
            return out
        if isinstance(e, ast.Call):
            fn = e.func
            rr = self._call_result_roots(f, e, _seen)
            if rr is not None:
                return rr
            if isinstance(fn, ast.Attribute):
                # method result: derived from the receiver (x.get(k), x.pop(), getters)
                out = self.expr_roots(f, fn.value, _seen)
                # find_in_scope(scope, ...) style: module function taking objects
                return {r for r in out if r != "fresh"} or {"unknown"}
            if isinstance(fn, ast.Name):
                out = set()
                for a in list(e.args) + [k.value for k in e.keywords]:
                    out |= {r for r in self.expr_roots(f, a, _seen) if r != "fresh"}
                return out or {"unknown"}
        return {"unknown"}

    def _returns_roots(self, q):
        """Roots (in the callee's own terms) of what a function returns; None when
        not determinable (recursion, unresolved)."""
        if not hasattr(self, "_rr"):
            self._rr, self._rr_busy = {}, set()
        if q in self._rr:
            return self._rr[q]
        if q in self._rr_busy:
            return set()
        self._rr_busy.add(q)
        try:
            g = self.m.funcs[q]
            out = set()
            for r in (n for n in self.m.walk_own(g.node) if isinstance(n, ast.Return) and n.value is not None):
                vals = r.value.elts if isinstance(r.value, ast.Tuple) else [r.value]
                for v in vals:
                    if isinstance(v, ast.Constant):
                        continue
                    out |= self.expr_roots(g, v)
        finally:
            self._rr_busy.discard(q)
        if not self._rr_busy:
            self._rr[q] = out
        return out

    def _call_result_roots(self, f, call, _seen=None):
        """Roots of a call's result through the callee's return summary (which
        parameter / receiver the result aliases), or None for unresolved calls."""
        k, tg = self.r.resolve_call(f, call)
        if k not in ("nested", "module", "import", "typed", "super") or not tg:
            return None
        out = set()
        for q in tg:
            g = self.m.funcs[q]
            rr = self._returns_roots(q)
            for r in rr:
                if r in ("fresh", "unknown") or r.startswith("global:"):
                    out.add(r)
                elif r == "self":
                    if isinstance(call.func, ast.Attribute):
                        out |= self.expr_roots(f, call.func.value, _seen)
                    else:
                        out.add("self" if self._has_self(f) else "unknown")
                elif r.startswith("param:"):
                    pn = r[6:]
                    a = self._actual(call, k, g, pn)
                    if a is None:
                        if pn not in g.params:
                            out |= self.local_roots(f, pn, _seen)  # closure variable
                        else:
                            out.add("fresh")  # default value
                    else:
                        out |= self.expr_roots(f, a, _seen)
        if not out:
            return {"fresh"}
        if len(out) > 1:
            out.discard("fresh")
        return out

    # --------------------------------------------------------- direct writes
    def direct(self, f: Func):
        if f.qual in self._direct:
            return self._direct[f.qual]
        out = []

        def add(target_expr, kind, node):
            # target_expr: the object being written (Attribute for x.f = .., or the
            # receiver of a mutator / container of an item store)
            chain = []
            e = target_expr
            while isinstance(e, (ast.Attribute, ast.Subscript)):
                if isinstance(e, ast.Attribute):
                    chain.append(e.attr)
                e = e.value
            chain.reverse()
            path = ".".join(chain)
            if isinstance(e, ast.Name):
                roots = self.local_roots(f, e.id)
            elif isinstance(e, ast.Call):
                roots = self.expr_roots(f, e)
            else:
                roots = {"unknown"}
            for r in roots:
                if r == "fresh":
                    continue
                if r == "self" and not path:
                    continue
                out.append(Write(f.qual, node, r, path, kind))

        for n in self.m.walk_own(f.node):
            if isinstance(n, (ast.Assign, ast.AugAssign, ast.AnnAssign)):
                if isinstance(n, ast.AnnAssign) and n.value is None:
                    continue
                tgts = n.targets if isinstance(n, ast.Assign) else [n.target]
                flat = []
                for t in tgts:
                    if isinstance(t, (ast.Tuple, ast.List)):
                        flat += [x.value if isinstance(x, ast.Starred) else x for x in t.elts]
                    else:
                        flat.append(t)
                for t in flat:
                    if isinstance(t, ast.Attribute):
                        add(t, "assign", n)
                    elif isinstance(t, ast.Subscript):
                        add(t.value, "item", n)
                    elif isinstance(t, ast.Name) and isinstance(n, ast.AugAssign):
                        # x += [...] mutates a list in place when x aliases one
                        roots = self.local_roots(f, t.id)
                        if roots - {"fresh"} and not isinstance(n.value, ast.Constant):
                            pass  # rebinding of an immutable (str/int) is far more common; ignore
                    elif isinstance(t, ast.Name):
                        gl = self._declared_global(f, t.id)
                        if gl:
                            out.append(Write(f.qual, n, f"global:{t.id}", "", "assign"))
            elif isinstance(n, ast.Delete):
                for t in n.targets:
                    if isinstance(t, ast.Attribute):
                        add(t, "del", n)
                    elif isinstance(t, ast.Subscript):
                        add(t.value, "item", n)
            elif isinstance(n, ast.Call) and isinstance(n.func, ast.Attribute) and n.func.attr in MUTATORS:
                recv = n.func.value
                # receivers that are evidently not shared containers
                b = self.r.expr_builtin(f, recv)
                if b in ("str", "match", "pattern", "int"):
                    continue
                ks = self.r.expr_classes(f, recv)
                if ks:
                    continue  # a repo-class method named like a mutator: handled as a call
                add(recv, "mutate", n)
            elif isinstance(n, ast.Call) and isinstance(n.func, ast.Name) and n.func.id == "setattr" and len(n.args) >= 2:
                add(n.args[0], "assign", n)
                out[-1:] = [Write(w.func, w.node, w.root, (w.path + "." if w.path else "") + "<dyn>", "assign") for w in out[-1:]] if out else []
        self._direct[f.qual] = out
        return out

    def _declared_global(self, f, name):
        for n in self.m.walk_own(f.node):
            if isinstance(n, ast.Global) and name in n.names:
                return True
        return False

    def _transient_classes(self):
        """Classes no instance of which is ever stored into a field/container of
        another object (who-stores-what pass)."""
        stored = set()
        for f in self.m.funcs.values():
            for n in self.m.walk_own(f.node):
                vals = []
                if isinstance(n, ast.Assign) and any(isinstance(t, (ast.Attribute, ast.Subscript)) for t in n.targets):
                    vals.append(n.value)
                elif isinstance(n, ast.Call) and isinstance(n.func, ast.Attribute) and n.func.attr in ("append", "add", "insert", "extend", "setdefault", "update"):
                    recv = n.func.value
                    if isinstance(recv, (ast.Attribute, ast.Subscript)):
                        vals += list(n.args)
                for v in vals:
                    ks = self.r.expr_classes(f, v)
                    for k in ks or ():
                        stored |= self.m.cone(k)
        # dataclass fields typed with a repo class count as stores
        for c in self.m.classes.values():
            for fl in c.fields.values():
                for k in self.r.ann_classes(c.rel, fl.ann):
                    stored |= self.m.cone(k)
        # a class that owns the message loop / dispatch table is the root of all
        # persistent state, even though nobody stores it
        roots = set()
        for q, c in self.m.classes.items():
            for mq in c.methods.values():
                g = self.m.funcs[mq]
                for n in self.m.walk_own(g.node):
                    if isinstance(n, ast.Dict) and len(n.keys) >= 8 and sum(1 for k in n.keys if isinstance(k, ast.Constant) and isinstance(k.value, str) and "/" in k.value) >= 5:
                        roots.add(q)
                    if isinstance(n, ast.Call) and isinstance(n.func, ast.Attribute) and n.func.attr == "read_message":
                        roots.add(q)
        return {q for q in self.m.classes if q not in stored and q not in roots}

    # ------------------------------------------------------------ summaries
    def summaries(self, by_name=True, max_iter=12):
        """qual -> {(root, path, kind): Write}: writes expressed on the function's
        own roots (self / params / globals / unknown), callees substituted
        (worklist propagation over the reversed call graph; one representative
        origin is kept per (root, path, kind))."""
        if self._summary is not None and self._summary[0] == by_name:
            return self._summary[1]
        from collections import deque

        summ = {}
        rev = defaultdict(list)  # callee qual -> [(caller func, call, kind)]
        for q, f in self.m.funcs.items():
            for call, kind, targets in self.r.callees(f):
                if kind in ("external", "unknown"):
                    continue
                if kind == "by_name" and not by_name:
                    continue
                for tq in targets:
                    rev[tq].append((f, call, kind))
        work = deque()
        for q, f in self.m.funcs.items():
            d = {}
            for w in self.direct(f):
                if w.root == "self" and f.cls in self.transient:
                    continue
                k = (w.root, w.path, w.kind)
                if k not in d:
                    d[k] = w
                    work.append((q, k))
            summ[q] = d
        self._subst_cache = {}
        steps = 0
        while work:
            q, k = work.popleft()
            w = summ[q][k]
            g = self.m.funcs[q]
            for f, call, kind in rev.get(q, ()):
                steps += 1
                for nr, npath in self._subst(f, call, kind, g, w):
                    if nr == "fresh":
                        continue
                    if nr == "self" and f.cls in self.transient:
                        continue
                    if nr == "self" and not npath:
                        continue
                    comps = npath.split(".") if npath else []
                    if len(comps) > 3:
                        # k-limiting: keep the first step and the field written
                        npath = ".".join([comps[0], "*"] + comps[-1:])
                    nk = (nr, npath, w.kind)
                    d = summ[f.qual]
                    if nk not in d and len(w.via) < 12:
                        d[nk] = Write(w.func, w.node, nr, npath, w.kind, ((f.qual, call.lineno),) + w.via[:6])
                        work.append((f.qual, nk))
        self._summary = (by_name, summ)
        return summ

    def _subst(self, f: Func, call: ast.Call, kind, g: Func, w: Write):
        """Map a callee write root into the caller's roots at this call site."""
        if w.root.startswith("global:") or w.root == "unknown":
            return [(w.root, w.path)]
        if w.root == "self":
            if kind == "ctor":
                return [("fresh", w.path)]
            if kind == "funcvalue":
                return [("unknown", w.path)]
            recv = call.func.value if isinstance(call.func, ast.Attribute) else None
            if kind == "super" or (recv is None):
                # nested function using the enclosing method's self, or super()
                return [("self", w.path)] if self._has_self(f) else [("unknown", w.path)]
            return self._expr_subst(f, recv, w.path)
        if w.root.startswith("param:"):
            pname = w.root[6:]
            if kind == "nested" or g.parent:
                # closure variable of an enclosing function?  params of g itself only
                pass
            arg = self._actual(call, kind, g, pname)
            if arg is None:
                # default value object (fresh unless mutable default) or closure
                if pname not in g.params:
                    return [(r, w.path) for r in self.local_roots(f, pname)]
                return [("fresh", w.path)]
            return self._expr_subst(f, arg, w.path)
        return [(w.root, w.path)]

    def _has_self(self, f):
        cur = f
        while cur is not None:
            if cur.cls and not self._is_static(cur):
                return True
            cur = self.m.funcs.get(cur.parent) if cur.parent else None
        return False

    def _expr_subst(self, f, e, path):
        ck = (f.qual, id(e))
        base = self._es_cache.get(ck) if hasattr(self, "_es_cache") else None
        if base is None:
            if not hasattr(self, "_es_cache"):
                self._es_cache = {}
            base = self._expr_subst_base(f, e)
            self._es_cache[ck] = base
        roots, prefix = base
        full = ".".join(x for x in (prefix, path) if x) if prefix is not None else path
        return [(r, full) for r in roots]

    def _expr_subst_base(self, f, e):
        chain = []
        x = e
        while isinstance(x, (ast.Attribute, ast.Subscript)):
            if isinstance(x, ast.Attribute):
                chain.append(x.attr)
            x = x.value
        chain.reverse()
        if isinstance(x, ast.Name) and not self._is_fresh_value(f, e):
            return self.local_roots(f, x.id), ".".join(chain)
        return self.expr_roots(f, e), None

    def _actual(self, call, kind, g: Func, pname):
        params = list(g.params)
        if g.cls and not g.parent and not self._is_static(g) and params:
            params = params[1:]  # bound self
        if kind == "funcvalue":
            # pool.apply_async(fn, args=(...))
            for kw in call.keywords:
                if kw.arg == "args" and isinstance(kw.value, (ast.Tuple, ast.List)):
                    if pname in params and params.index(pname) < len(kw.value.elts):
                        return kw.value.elts[params.index(pname)]
            return None
        for kw in call.keywords:
            if kw.arg == pname:
                return kw.value
        if pname in params:
            i = params.index(pname)
            if i < len(call.args) and not any(isinstance(a, ast.Starred) for a in call.args[: i + 1]):
                return call.args[i]
        return None

    # -------------------------------------------------------- attr-name view
    def nonnull_only_attrs(self):
        """qual -> attrs that the function (transitively) assigns, but only ever
        definitely-non-None values (constructor results, displays, constants)."""
        if getattr(self, "_nn", None) is not None:
            return self._nn
        from .cfg import definitely_nonnull

        maybe = {}
        for q, f in self.m.funcs.items():
            mb = set()
            for n in self.m.walk_own(f.node):
                if isinstance(n, (ast.Assign, ast.AugAssign, ast.AnnAssign)):
                    tg = n.targets if isinstance(n, ast.Assign) else [n.target]
                    val = getattr(n, "value", None)
                    for t in tg:
                        for x in ([t] if not isinstance(t, (ast.Tuple, ast.List)) else t.elts):
                            if isinstance(x, ast.Attribute):
                                if isinstance(t, (ast.Tuple, ast.List)) or val is None or not definitely_nonnull(val, lambda nm: nm in self.m.cname):
                                    mb.add(x.attr)
                elif isinstance(n, ast.Call) and isinstance(n.func, ast.Name) and n.func.id in ("setattr", "delattr"):
                    mb.add("*")
                elif isinstance(n, ast.Delete):
                    for t in n.targets:
                        if isinstance(t, ast.Attribute):
                            mb.add(t.attr)
            maybe[q] = mb
        g = self.r.graph()
        res = {q: set(v) for q, v in maybe.items()}
        changed = True
        it = 0
        while changed and it < 30:
            changed = False
            it += 1
            for q in res:
                for t, k in g.get(q, ()):
                    if not res[t] <= res[q]:
                        res[q] |= res[t]
                        changed = True
        attrs = self.attr_sets()
        self._nn = {q: (attrs[q][0] - res[q]) if "*" not in res[q] else set() for q in attrs}
        return self._nn

    def attr_sets(self):
        """qual -> (assigned attr names, mutated attr names), transitive, any root
        (the conservative view used to kill facts at call sites)."""
        if self._attrs is not None:
            return self._attrs
        direct = {}
        for q, f in self.m.funcs.items():
            a, mu = set(), set()
            for n in self.m.walk_own(f.node):
                if isinstance(n, (ast.Assign, ast.AugAssign, ast.AnnAssign)):
                    tg = n.targets if isinstance(n, ast.Assign) else [n.target]
                    for t in tg:
                        for x in ([t] if not isinstance(t, (ast.Tuple, ast.List)) else t.elts):
                            if isinstance(x, ast.Attribute):
                                a.add(x.attr)
                            elif isinstance(x, ast.Subscript) and isinstance(x.value, ast.Attribute):
                                mu.add(x.value.attr)
                elif isinstance(n, ast.Call) and isinstance(n.func, ast.Attribute) and n.func.attr in MUTATORS and isinstance(n.func.value, ast.Attribute):
                    mu.add(n.func.value.attr)
                elif isinstance(n, ast.Call) and isinstance(n.func, ast.Name) and n.func.id == "setattr":
                    a.add("*")
            direct[q] = (a, mu)
        g = self.r.graph()
        res = {q: (set(a), set(mu)) for q, (a, mu) in direct.items()}
        changed = True
        it = 0
        while changed and it < 30:
            changed = False
            it += 1
            for q in res:
                a, mu = res[q]
                for t, k in g.get(q, ()):
                    ta, tm = res[t]
                    if not ta <= a:
                        a |= ta
                        changed = True
                    if not tm <= mu:
                        mu |= tm
                        changed = True
        self._attrs = res
        return res
