"""Call resolution over the source model (DESIGN.md 2.2)."""
from __future__ import annotations

import ast
from collections import defaultdict

from .model import Func, Model, access_path

# element class of the few containers that matter: (class simple name, field) -> class simple name
CONTAINER_ELEM = {
    ("LangServer", "workspace"): "FortranFile",  # dict values
    ("LangServer", "intrinsic_funs"): "Intrinsic",
    ("LangServer", "intrinsic_mods"): "Module",
    ("FortranAST", "scope_list"): "Scope",
    ("FortranAST", "scope_stack"): "Scope",
    ("FortranAST", "variable_list"): "Variable",
    ("FortranAST", "external_objs"): "Variable",
    ("FortranAST", "inherit_objs"): "FortranObj",
    ("FortranAST", "linkable_objs"): "FortranObj",
    ("Scope", "children"): "FortranObj",
    ("Variable", "children"): "FortranObj",
    ("Scope", "use"): "Use",
    ("Variable", "use"): "Use",
    ("Type", "in_children"): "FortranObj",
    ("Subroutine", "in_children"): "FortranObj",
    ("Subroutine", "arg_objs"): "FortranObj",
    ("Subroutine", "missing_args"): "FortranObj",
    ("Interface", "mems"): "FortranObj",
    ("Associate", "links"): "AssociateMap",
}
# names of parameters/locals that hold the workspace tables when passed around
TABLE_NAMES = {"obj_tree": "obj_tree", "workspace": "workspace"}

STR_METHODS = {
    "lower", "upper", "strip", "lstrip", "rstrip", "split", "rsplit", "replace", "join",
    "format", "startswith", "endswith", "find", "rfind", "index", "count", "encode",
    "decode", "isdigit", "splitlines", "title", "capitalize", "casefold", "partition",
    "rpartition", "zfill", "ljust", "rjust", "center", "expandtabs", "isalpha", "isalnum",
    "isspace", "format_map", "removeprefix", "removesuffix", "swapcase", "translate",
}
MATCH_PRODUCERS = {"match", "search", "fullmatch"}
MATCH_METHODS = {"group", "groups", "groupdict", "start", "end", "span", "expand"}
BUILTIN_RET = {
    "str": "str", "repr": "str", "len": "int", "int": "int", "float": "float",
    "list": "list", "dict": "dict", "set": "set", "tuple": "tuple", "sorted": "list",
    "frozenset": "set", "bool": "bool", "abs": "int", "min": None, "max": None,
    "enumerate": "iter", "zip": "iter", "range": "iter", "reversed": "iter",
    "map": "iter", "filter": "iter", "iter": "iter", "any": "bool", "all": "bool",
    "isinstance": "bool", "hasattr": "bool", "type": "type", "id": "int",
}


class Resolver:
    def __init__(self, model: Model):
        self.m = model
        self._env = {}
        self._benv = {}
        self._calls = {}
        self._ret = {}
        self._graph = None
        self.fobj = model.cname.get("FortranObj")
        self.base_iface = set(model.classes[self.fobj].methods) if self.fobj else set()
        self._in_ret = set()

    # -------------------------------------------------------------- type envs
    def ann_classes(self, rel, ann):
        """Repo classes named in an annotation text."""
        if not ann:
            return set()
        out = set()
        txt = ann.replace('"', "").replace("'", "")
        for alt in self._split_top(txt, "|"):
            alt = alt.strip()
            base = alt.split("[")[0].strip()
            if base in ("Optional", "typing.Optional", "Union", "typing.Union", "T", "Type"):
                inner = alt[alt.find("[") + 1 : alt.rfind("]")] if "[" in alt else ""
                for part in self._split_top(inner, ","):
                    out |= self.ann_classes(rel, part)
                continue
            if "[" in alt:
                continue  # generic container: not an instance of a repo class
            q = self.m.resolve_class_name(rel, base)
            if q:
                out.add(q)
        return out

    @staticmethod
    def _split_top(txt, sep):
        out, depth, cur = [], 0, ""
        for ch in txt:
            if ch == "[":
                depth += 1
            elif ch == "]":
                depth -= 1
            if ch == sep and depth == 0:
                out.append(cur)
                cur = ""
            else:
                cur += ch
        out.append(cur)
        return out

    def ann_elem_classes(self, rel, ann):
        """Element classes of a container annotation: list[X], dict[K, X], set[X]."""
        if not ann or "[" not in ann:
            return set()
        txt = ann.replace('"', "").replace("'", "").strip()
        base = txt.split("[")[0].strip().lower()
        inner = txt[txt.find("[") + 1 : txt.rfind("]")]
        parts = self._split_top(inner, ",")
        if base in ("dict", "typing.dict", "defaultdict"):
            parts = parts[1:]
        elif base not in ("list", "set", "tuple", "deque", "frozenset", "iterable", "sequence"):
            return set()
        out = set()
        for p in parts:
            out |= self.ann_classes(rel, p)
        return out

    def ann_builtin(self, ann):
        if not ann:
            return None
        t = ann.replace('"', "").replace("'", "").strip()
        t = t.split("|")[0].strip()
        base = t.split("[")[0].strip().lower()
        return {"str": "str", "int": "int", "bool": "bool", "list": "list", "dict": "dict",
                "set": "set", "tuple": "tuple", "float": "float", "pattern": "pattern",
                "match": "match", "re.match": "match"}.get(base)

    def elem_class(self, owner_classes, field):
        out = set()
        for c in owner_classes or ():
            for k in self.m.mro(c):
                e = CONTAINER_ELEM.get((self.m.classes[k].name, field))
                if e and e in self.m.cname:
                    out.add(self.m.cname[e])
        return out

    def env(self, f: Func):
        """name -> set of repo class quals (flow-insensitive, first binding wins
        unless several constructor bindings exist, which are united)."""
        if f.qual in self._env:
            return self._env[f.qual]
        env = {}
        benv = {}
        self._env[f.qual] = env
        self._benv[f.qual] = benv
        if f.parent:
            penv = self.env(self.m.funcs[f.parent])
            env.update(penv)
            benv.update(self._benv[f.parent])
        a = f.node.args
        for x in a.posonlyargs + a.args + a.kwonlyargs:
            env.pop(x.arg, None)
            benv.pop(x.arg, None)
            if x.annotation is not None:
                ann = ast.unparse(x.annotation)
                ks = self.ann_classes(f.rel, ann)
                if ks:
                    env[x.arg] = set(ks)
                else:
                    b = self.ann_builtin(ann)
                    if b:
                        benv[x.arg] = b
        if f.cls and f.params and not f.parent:
            is_static = any(
                isinstance(d, ast.Name) and d.id == "staticmethod" for d in f.node.decorator_list
            )
            if not is_static:
                env[f.params[0]] = {f.cls}
        # two passes so that later bindings can use earlier ones
        for _ in range(2):
            for n in self.m.walk_own(f.node):
                if isinstance(n, ast.AnnAssign) and isinstance(n.target, ast.Name):
                    ann = ast.unparse(n.annotation)
                    ks = self.ann_classes(f.rel, ann)
                    if ks:
                        env[n.target.id] = set(ks)
                    else:
                        b = self.ann_builtin(ann)
                        if b:
                            benv.setdefault(n.target.id, b)
                    if n.value is not None and not ks:
                        self._bind(f, env, benv, n.target, n.value)
                elif isinstance(n, ast.Assign):
                    for t in n.targets:
                        self._bind(f, env, benv, t, n.value)
                elif isinstance(n, (ast.For, ast.comprehension)):
                    self._bind_iter(f, env, benv, n.target, n.iter)
                elif isinstance(n, ast.With):
                    for it in n.items:
                        if it.optional_vars is not None and isinstance(it.optional_vars, ast.Name):
                            benv.setdefault(it.optional_vars.id, "ctx")
                elif isinstance(n, ast.ExceptHandler) and n.name:
                    benv.setdefault(n.name, "exc")
        return env

    def benv(self, f):
        self.env(f)
        return self._benv[f.qual]

    def _bind(self, f, env, benv, target, value):
        if isinstance(target, (ast.Tuple, ast.List)):
            if isinstance(value, (ast.Tuple, ast.List)) and len(value.elts) == len(target.elts):
                for t, v in zip(target.elts, value.elts):
                    self._bind(f, env, benv, t, v)
            else:
                # tuple-returning repo function: bind element-wise from returns
                rets = self.ret_tuple_classes(f, value)
                for i, t in enumerate(target.elts):
                    if isinstance(t, ast.Name):
                        if rets and i < len(rets) and rets[i]:
                            env.setdefault(t.id, set()).update(rets[i])
            return
        if not isinstance(target, ast.Name):
            return
        ks = self.expr_classes(f, value, env, benv)
        if ks:
            env.setdefault(target.id, set()).update(ks)
            return
        b = self.expr_builtin(f, value, env, benv)
        if b and target.id not in env:
            benv.setdefault(target.id, b)

    def _bind_iter(self, f, env, benv, target, it):
        # for _, v in X.items()
        if (
            isinstance(it, ast.Call)
            and isinstance(it.func, ast.Attribute)
            and it.func.attr in ("items", "values")
        ):
            base = it.func.value
            ks = self._container_elem_of(f, base, env, benv)
            if ks:
                tv = target
                if it.func.attr == "items" and isinstance(target, (ast.Tuple, ast.List)) and len(target.elts) == 2:
                    tv = target.elts[1]
                if isinstance(tv, ast.Name):
                    env.setdefault(tv.id, set()).update(ks)
                if isinstance(target, (ast.Tuple, ast.List)) and isinstance(target.elts[0], ast.Name):
                    benv.setdefault(target.elts[0].id, "str")
                return
        if isinstance(it, ast.Call) and isinstance(it.func, ast.Name) and it.func.id == "enumerate" and it.args:
            if isinstance(target, (ast.Tuple, ast.List)) and len(target.elts) == 2:
                if isinstance(target.elts[0], ast.Name):
                    benv.setdefault(target.elts[0].id, "int")
                self._bind_iter(f, env, benv, target.elts[1], it.args[0])
            return
        if isinstance(it, ast.Call) and isinstance(it.func, ast.Attribute) and it.func.attr == "finditer":
            if isinstance(target, ast.Name):
                benv.setdefault(target.id, "match")
            return
        ks = self._container_elem_of(f, it, env, benv)
        if ks and isinstance(target, ast.Name):
            env.setdefault(target.id, set()).update(ks)
            return
        b = self.expr_builtin(f, it, env, benv)
        if isinstance(target, ast.Name) and b in ("str",):
            benv.setdefault(target.id, "str")

    def _container_elem_of(self, f, e, env, benv):
        """Element classes when iterating over expression e."""
        # a local defined in terms of itself (`xs = xs[::-1]`) must not send the walk round in circles
        active = self.__dict__.setdefault("_elem_active", set())
        k_ = (f.qual, id(e))
        if k_ in active or len(active) > 40:
            return set()
        active.add(k_)
        try:
            return self._container_elem_of_1(f, e, env, benv)
        finally:
            active.discard(k_)

    def _container_elem_of_1(self, f, e, env, benv):
        if isinstance(e, ast.Attribute):
            owner = self.expr_classes(f, e.value, env, benv)
            ks = self.elem_class(owner, e.attr)
            if ks:
                return ks
            for c in owner or ():
                fl = self.m.field(c, e.attr)
                if fl and fl.ann:
                    ks = self.ann_elem_classes(self.m.classes[c].rel, fl.ann)
                    if ks:
                        return ks
        if isinstance(e, ast.Call):
            # x.get_children(), ast.get_scopes(...): element class from callee's
            # returned container fields
            tg = self.call_targets_quick(f, e, env, benv)
            out = set()
            for q in tg:
                out |= self.ret_elem_classes(q)
            if out:
                return out
            if isinstance(e.func, ast.Name) and e.func.id in ("iter", "list", "reversed", "sorted", "set") and e.args:
                return self._container_elem_of(f, e.args[0], env, benv)
            if isinstance(e.func, ast.Attribute) and e.func.attr in ("copy", "deepcopy"):
                if self.m.dotted(f.rel, e.func) in ("copy.copy", "copy.deepcopy") and e.args:
                    return self._container_elem_of(f, e.args[0], env, benv)
                return self._container_elem_of(f, e.func.value, env, benv)
        if isinstance(e, ast.Subscript) and isinstance(e.slice, ast.Slice):
            return self._container_elem_of(f, e.value, env, benv)
        if isinstance(e, ast.BinOp) and isinstance(e.op, ast.Add):
            a = self._container_elem_of(f, e.left, env, benv) or set()
            b = self._container_elem_of(f, e.right, env, benv) or set()
            return a | b
        if isinstance(e, ast.Name):
            # local bound to a container field
            for n in self.m.walk_own(f.node):
                if isinstance(n, ast.Assign) and len(n.targets) == 1 and isinstance(n.targets[0], ast.Name) and n.targets[0].id == e.id:
                    if n.value is not e and not (isinstance(n.value, ast.Name) and n.value.id == e.id):
                        ks = self._container_elem_of(f, n.value, env, benv)
                        if ks:
                            return ks
        return set()

    def ret_elem_classes(self, q):
        """Element classes of the container a function returns (one level)."""
        key = ("elem", q)
        if key in self._ret:
            return self._ret[key]
        self._ret[key] = set()
        f = self.m.funcs[q]
        out = set()
        if f.node.returns is not None:
            out |= self.ann_elem_classes(f.rel, ast.unparse(f.node.returns))
        env = self.env(f)
        benv = self.benv(f)
        for n in self.m.walk_own(f.node):
            if isinstance(n, ast.Return) and n.value is not None and not out:
                out |= self._container_elem_of(f, n.value, env, benv)
        self._ret[key] = out
        return out

    def ret_classes(self, q):
        key = ("ret", q)
        if key in self._ret:
            return self._ret[key]
        self._ret[key] = set()
        f = self.m.funcs[q]
        out = set()
        if f.node.returns is not None:
            out |= self.ann_classes(f.rel, ast.unparse(f.node.returns))
        if not out:
            env = self.env(f)
            benv = self.benv(f)
            for n in self.m.walk_own(f.node):
                if isinstance(n, ast.Return) and n.value is not None:
                    ks = self.expr_classes(f, n.value, env, benv)
                    if ks:
                        out |= ks
        self._ret[key] = out
        return out

    def ret_tuple_classes(self, f, value):
        if not isinstance(value, ast.Call):
            return None
        tg = self.call_targets_quick(f, value, self._env.get(f.qual, {}), self._benv.get(f.qual, {}))
        res = None
        for q in tg:
            g = self.m.funcs[q]
            for n in self.m.walk_own(g.node):
                if isinstance(n, ast.Return) and isinstance(n.value, ast.Tuple):
                    cur = [self.expr_classes(g, e, self.env(g), self.benv(g)) or set() for e in n.value.elts]
                    if res is None:
                        res = cur
                    elif len(res) == len(cur):
                        res = [a | b for a, b in zip(res, cur)]
        return res

    def expr_builtin(self, f, e, env=None, benv=None):
        env = self.env(f) if env is None else env
        benv = self.benv(f) if benv is None else benv
        if isinstance(e, ast.Constant):
            if e.value is None:
                return None
            return type(e.value).__name__
        if isinstance(e, ast.JoinedStr):
            return "str"
        if isinstance(e, (ast.List, ast.ListComp)):
            return "list"
        if isinstance(e, (ast.Dict, ast.DictComp)):
            return "dict"
        if isinstance(e, (ast.Set, ast.SetComp)):
            return "set"
        if isinstance(e, ast.Tuple):
            return "tuple"
        if isinstance(e, ast.Name):
            if e.id in env:
                return None
            return benv.get(e.id)
        if isinstance(e, ast.Attribute):
            owner = self.expr_classes(f, e.value, env, benv)
            for c in owner or ():
                fl = self.m.field(c, e.attr)
                if fl and fl.ann and not self.ann_classes(self.m.classes[c].rel, fl.ann):
                    b = self.ann_builtin(fl.ann)
                    if b:
                        return b
            return None
        if isinstance(e, ast.BinOp):
            l = self.expr_builtin(f, e.left, env, benv)
            r = self.expr_builtin(f, e.right, env, benv)
            if isinstance(e.op, ast.Mod) and l == "str":
                return "str"
            if l == r:
                return l
            return l if l in ("str", "list") and r is None else (r if r in ("str", "list") and l is None else None)
        if isinstance(e, ast.Subscript):
            b = self.expr_builtin(f, e.value, env, benv)
            if b == "str":
                return "str"
            if isinstance(e.slice, ast.Slice):
                return b
            return None
        if isinstance(e, ast.IfExp):
            return self.expr_builtin(f, e.body, env, benv) or self.expr_builtin(f, e.orelse, env, benv)
        if isinstance(e, ast.Call):
            fn = e.func
            if isinstance(fn, ast.Name) and fn.id in BUILTIN_RET and fn.id not in env:
                return BUILTIN_RET[fn.id]
            if isinstance(fn, ast.Attribute):
                d = self.m.dotted(f.rel, fn)
                if d in ("re.compile",):
                    return "pattern"
                if d in ("re.match", "re.search", "re.fullmatch"):
                    return "match"
                if d in ("re.sub", "re.escape"):
                    return "str"
                if d in ("re.split", "re.findall"):
                    return "list"
                if fn.attr in MATCH_PRODUCERS:
                    rb = self.expr_builtin(f, fn.value, env, benv)
                    rk = self.expr_classes(f, fn.value, env, benv)
                    if not rk:
                        return "match"
                if fn.attr in STR_METHODS:
                    rk = self.expr_classes(f, fn.value, env, benv)
                    if not rk:
                        if fn.attr in ("split", "rsplit", "splitlines"):
                            return "list"
                        if fn.attr in ("startswith", "endswith", "isdigit"):
                            return "bool"
                        if fn.attr in ("find", "rfind", "index", "count"):
                            return "int"
                        return "str"
                if fn.attr in ("group",) and self.expr_builtin(f, fn.value, env, benv) == "match":
                    return "str"
                if fn.attr in ("start", "end") and self.expr_builtin(f, fn.value, env, benv) == "match":
                    return "int"
                if fn.attr in ("copy",):
                    return self.expr_builtin(f, fn.value, env, benv)
                if fn.attr in ("keys", "values", "items"):
                    return "iter"
            return None
        return None

    def expr_classes(self, f, e, env=None, benv=None):
        env = self.env(f) if env is None else env
        benv = self.benv(f) if benv is None else benv
        if isinstance(e, ast.Name):
            return set(env.get(e.id, ())) or None
        if isinstance(e, ast.Call):
            fn = e.func
            if isinstance(fn, ast.Name):
                cq = self.m.resolve_class_name(f.rel, fn.id) if fn.id not in env else None
                if cq and fn.id[:1].isupper():
                    return {cq}
                nv = self.nested_visible(f)
                fq = nv.get(fn.id) or self.m.resolve_func_name(f.rel, fn.id)
                if fq:
                    return self.ret_classes(fq) or None
                return None
            if isinstance(fn, ast.Attribute):
                # workspace.get(path) / obj_tree lookups
                ks = None
                if fn.attr in ("get", "pop", "setdefault"):
                    ce = self._container_elem_of(f, fn.value, env, benv)
                    if ce:
                        return ce
                owner = self.expr_classes(f, fn.value, env, benv)
                if owner:
                    out = set()
                    for c in owner:
                        for q in self.m.dispatch(c, fn.attr):
                            out |= self.ret_classes(q)
                    return out or None
            return None
        if isinstance(e, ast.Attribute):
            owner = self.expr_classes(f, e.value, env, benv)
            if owner:
                out = set()
                for c in owner:
                    fl = self.m.field(c, e.attr)
                    if fl is None:
                        continue
                    ks = self.ann_classes(self.m.classes[c].rel, fl.ann)
                    if ks:
                        out |= ks
                        continue
                    out |= self.field_value_classes(c, e.attr)
                return out or None
            return None
        if isinstance(e, ast.Subscript):
            # obj_tree[k][0] -> Scope cone;  container[i] -> element class
            if isinstance(e.value, ast.Subscript):
                p = access_path(e.value.value)
                if p and p.split(".")[-1] == "obj_tree" and isinstance(e.slice, ast.Constant) and e.slice.value == 0:
                    s = self.m.cname.get("Scope")
                    return {s} if s else None
            if not isinstance(e.slice, ast.Slice):
                ks = self._container_elem_of(f, e.value, env, benv)
                if ks:
                    return ks
            return None
        if isinstance(e, ast.IfExp):
            a = self.expr_classes(f, e.body, env, benv) or set()
            b = self.expr_classes(f, e.orelse, env, benv) or set()
            return (a | b) or None
        if isinstance(e, ast.BoolOp):
            out = set()
            for v in e.values:
                out |= self.expr_classes(f, v, env, benv) or set()
            return out or None
        return None

    def field_value_classes(self, c, field):
        """Classes of the values assigned to an un-annotated field (2.2 e)."""
        key = ("fv", c, field)
        if key in self._ret:
            return self._ret[key]
        self._ret[key] = set()
        out = set()
        fl = self.m.field(c, field)
        if fl:
            for fq, val, _ in fl.assigns:
                if fq is None or val is None:
                    continue
                g = self.m.funcs[fq]
                ks = self.expr_classes(g, val)
                if ks:
                    out |= ks
        self._ret[key] = out
        return out

    # ----------------------------------------------------------- call targets
    def nested_visible(self, f: Func):
        out = {}
        cur = f
        while cur is not None:
            for g in self.m.nested_funcs(cur):
                out.setdefault(g.name, g.qual)
            cur = self.m.funcs.get(cur.parent) if cur.parent else None
        return out

    def func_value_targets(self, f: Func, e):
        """Targets of an expression used as a function *value* (self.m, name)."""
        if isinstance(e, ast.Name):
            nv = self.nested_visible(f)
            if e.id in nv:
                return {nv[e.id]}
            q = self.m.resolve_func_name(f.rel, e.id)
            return {q} if q else set()
        if isinstance(e, ast.Attribute):
            owner = self.expr_classes(f, e.value)
            if owner:
                out = set()
                for c in owner:
                    out |= self.m.dispatch(c, e.attr)
                return out
        return set()

    def local_func_values(self, f: Func):
        """Locals bound to function values through the registry idioms:
        `h = {...: self.m, ...}.get(k, self.d)`, `for t in def_tests:`."""
        key = ("lfv", f.qual)
        if key in self._ret:
            return self._ret[key]
        out = defaultdict(set)
        assigns = [n for n in self.m.walk_own(f.node) if isinstance(n, ast.Assign) and len(n.targets) == 1 and isinstance(n.targets[0], ast.Name)]
        # locals holding a dict display (the table may be bound to a name first)
        dict_locals = {}
        for n in assigns:
            if isinstance(n.value, ast.Dict):
                dict_locals.setdefault(n.targets[0].id, []).append(n.value)

        def table(e):
            if isinstance(e, ast.Dict):
                return [e]
            if isinstance(e, ast.Name):
                return dict_locals.get(e.id, [])
            return []

        def fv(val):
            t = set(self.func_value_targets(f, val))
            if isinstance(val, ast.Name) and val.id in out:
                t |= out[val.id]
            return t

        for _ in range(4):  # copies of copies: small fixpoint
            before = sum(len(v) for v in out.values())
            for n in assigns:
                v = n.value
                ds = []
                extra = []
                if isinstance(v, ast.Call) and isinstance(v.func, ast.Attribute) and v.func.attr == "get" and table(v.func.value):
                    ds = table(v.func.value)
                    extra = v.args[1:2]
                elif isinstance(v, ast.Subscript) and table(v.value):
                    ds = table(v.value)
                elif isinstance(v, ast.Dict):
                    ds = [v]
                elif isinstance(v, ast.Name) and v.id in out:
                    out[n.targets[0].id] |= out[v.id]
                elif isinstance(v, ast.Attribute):
                    t = self.func_value_targets(f, v)
                    if t:
                        out[n.targets[0].id] |= t
                for d in ds:
                    for val in list(d.values) + list(extra):
                        out[n.targets[0].id] |= fv(val)
            if sum(len(v) for v in out.values()) == before:
                break
        for n in self.m.walk_own(f.node):
            if isinstance(n, ast.For) and isinstance(n.target, ast.Name):
                lst = self.module_func_list(f.rel, n.iter)
                if lst:
                    out[n.target.id] |= lst
        if f.parent:
            for k, v in self.local_func_values(self.m.funcs[f.parent]).items():
                out.setdefault(k, set(v))
        self._ret[key] = out
        return out

    def module_func_list(self, rel, e):
        if isinstance(e, ast.Name):
            v = self.m.consts.get(rel, {}).get(e.id)
            if v is None:
                imp = self.m.imports.get(rel, {}).get(e.id)
                if imp and imp[0] == "sym":
                    mrel = self.m.mod_rel(imp[1])
                    if mrel:
                        v = self.m.consts.get(mrel, {}).get(imp[2])
                        rel = mrel
            if isinstance(v, (ast.List, ast.Tuple)):
                out = set()
                for x in v.elts:
                    if isinstance(x, ast.Name):
                        q = self.m.resolve_func_name(rel, x.id)
                        if q:
                            out.add(q)
                return out
        return set()

    def call_targets_quick(self, f, call, env, benv):
        k, t = self._resolve(f, call, env, benv)
        return t if k not in ("external", "unknown") else set()

    def resolve_call(self, f: Func, call: ast.Call):
        return self._resolve(f, call, self.env(f), self.benv(f))

    def _resolve(self, f, call, env, benv):
        fn = call.func
        m = self.m
        if isinstance(fn, ast.Name):
            nv = self.nested_visible(f)
            if fn.id in nv and fn.id not in ("format",) or (fn.id in nv):
                return "nested", {nv[fn.id]}
            lfv = self.local_func_values(f)
            if fn.id in lfv and lfv[fn.id]:
                return "registry", set(lfv[fn.id])
            if fn.id in env and not (fn.id[:1].isupper()):
                return "unknown", set()
            cq = m.resolve_class_name(f.rel, fn.id) if fn.id[:1].isupper() or f"{f.rel}:{fn.id}" in m.classes else None
            if cq:
                tg = set()
                init = m.method(cq, "__init__")
                if init:
                    tg.add(init)
                pi = m.method(cq, "__post_init__")
                if pi:
                    tg.add(pi)
                return "ctor", tg
            fq = m.resolve_func_name(f.rel, fn.id)
            if fq:
                return "module" if fq.startswith(f.rel + ":") else "import", {fq}
            return "external", {m.dotted(f.rel, fn) or fn.id}
        if isinstance(fn, ast.Attribute):
            if isinstance(fn.value, ast.Call) and isinstance(fn.value.func, ast.Name) and fn.value.func.id == "super":
                c = f.cls or (m.funcs[f.parent].cls if f.parent else None)
                tg = set()
                if c:
                    for b in m.mro(c)[1:]:
                        q = m.classes[b].methods.get(fn.attr)
                        if q:
                            tg = {q}
                            break
                return ("super", tg) if tg else ("external", {"super()." + fn.attr})
            d = m.dotted(f.rel, fn)
            root = fn
            while isinstance(root, ast.Attribute):
                root = root.value
            if isinstance(root, ast.Name) and root.id in m.imports.get(f.rel, {}) and root.id not in env:
                imp = m.imports[f.rel][root.id]
                # module attribute call: repo module function or external
                if imp[0] == "mod" or (imp[0] == "sym" and m.mod_rel(imp[1] + "." + imp[2])):
                    modname = imp[1] if imp[0] == "mod" else imp[1] + "." + imp[2]
                    mrel = m.mod_rel(modname)
                    if mrel and isinstance(fn.value, ast.Name):
                        q = f"{mrel}:{fn.attr}"
                        if q in m.funcs:
                            return "import", {q}
                    return "external", {d}
                if imp[0] == "sym":
                    # imported symbol: class (static/ctor attr), constant object (FRegex.X.match)
                    cq = m.resolve_class_name(f.rel, root.id)
                    if cq and isinstance(fn.value, ast.Name):
                        q = m.method(cq, fn.attr)
                        if q:
                            return "typed", {q}
                    if not cq:
                        return "external", {d}
            ks = self.expr_classes(f, fn.value, env, benv)
            if ks:
                tg = set()
                for c in ks:
                    tg |= m.dispatch(c, fn.attr)
                if tg:
                    return "typed", tg
                return "external", {f"<{'|'.join(sorted(m.classes[c].name for c in ks))}>.{fn.attr}"}
            b = self.expr_builtin(f, fn.value, env, benv)
            if b is not None:
                return "external", {f"<{b}>.{fn.attr}"}
            # function-valued attributes: pool.apply_async(self.file_init,...) handled by caller
            cands = {
                g.qual
                for g in m.funcs.values()
                if g.name == fn.attr and g.cls and not g.parent
            }
            if cands and fn.attr in self.base_iface and self.fobj:
                cone = m.cone(self.fobj)
                cands = {q for q in cands if m.funcs[q].cls in cone}
            if cands:
                return "by_name", cands
            return "external", {d or ast.unparse(fn)}
        return "unknown", set()

    def callees(self, f: Func):
        """[(call node, kind, targets)] for every call in f's own body, plus the
        function values handed to the four registry sinks."""
        if f.qual in self._calls:
            return self._calls[f.qual]
        out = []
        for n in self.m.walk_own(f.node):
            if not isinstance(n, ast.Call):
                continue
            k, t = self.resolve_call(f, n)
            out.append((n, k, t))
            # function values passed as arguments that will be called
            d = self.m.dotted(f.rel, n.func) if isinstance(n.func, (ast.Attribute, ast.Name)) else None
            fv = []
            if isinstance(n.func, ast.Attribute) and n.func.attr in ("apply_async", "apply", "map", "imap", "starmap", "submit") and n.args:
                fv.append(n.args[0])
            if d in ("threading.Thread", "multiprocessing.Process"):
                for kw in n.keywords:
                    if kw.arg == "target":
                        fv.append(kw.value)
            for kw in n.keywords:
                if kw.arg in ("key", "want", "callback", "default") and isinstance(kw.value, (ast.Name, ast.Attribute)):
                    fv.append(kw.value)
            if isinstance(n.func, ast.Name) and n.func.id in ("filter", "map", "sorted") and n.args:
                fv.append(n.args[0])
            for v in fv:
                tg = self.func_value_targets(f, v)
                if tg:
                    out.append((n, "funcvalue", tg))
        self._calls[f.qual] = out
        return out

    def graph(self):
        """qual -> set of (target qual, kind)"""
        if self._graph is None:
            g = defaultdict(set)
            for q, f in self.m.funcs.items():
                for n, k, t in self.callees(f):
                    if k in ("external", "unknown"):
                        continue
                    for x in t:
                        g[q].add((x, k))
                # a nested def is "called" by its parent only if referenced; keep explicit calls only
            self._graph = g
        return self._graph

    def reachable(self, roots, by_name=True):
        g = self.graph()
        seen = set()
        stack = list(roots)
        while stack:
            q = stack.pop()
            if q in seen:
                continue
            seen.add(q)
            for x, k in g.get(q, ()):
                if k == "by_name" and not by_name:
                    continue
                if x not in seen:
                    stack.append(x)
        return seen

    def callers(self, target_qual, by_name=True):
        out = []
        for q, f in self.m.funcs.items():
            for n, k, t in self.callees(f):
                if target_qual in t and (by_name or k != "by_name"):
                    out.append((f, n, k))
        return out

    def census(self):
        from collections import Counter

        c = Counter()
        for f in self.m.funcs.values():
            for n, k, t in self.callees(f):
                c[k] += 1
        return dict(c)
